"""State spaces shared by C01 (position invariant) and C07 (totality):
raw vocabulary strings, catalogue documents, single faults of rich documents,
error marks near the end of the text; each under several option sets."""
import itertools
import os
import re

from . import catalogue as cat
from . import catcheck, core, impl

# ---------------------------------------------------------------- configurations

REPL = ['Waaq & Xq\n', 'Wabq Wacq & \n', 'a & bbb\n']
DEFS = ('\\newcommand{\\zd}[1]{<#1>}\n\\usepackage{amsmath}\nText in the definition file\\footnote{Hdfq} $x$\n'
        '\\selectlanguage{german}\n')

CONFIGS = {
    'de-all': ({'pack': '*,cleveref', 'lang': 'de'}, False),
    'en-ml': ({'pack': '*', 'lang': 'en-GB'}, True),
    'ru-seqs-nosp': ({'pack': '', 'lang': 'ru', 'seqs': True, 'nosp': True}, False),
    'extr': ({'pack': '*', 'lang': 'en', 'extr': 'footnote,caption,section'}, False),
    'repl': ({'pack': '*', 'lang': 'en', 'repl': REPL}, False),
    'extr-noarg': ({'pack': '*', 'lang': 'en', 'extr': 'LaTeX,hfill,ss,footnotemark,xxx,item,par'}, False),
    'defs': ({'pack': '*', 'lang': 'en', 'defs': DEFS}, False),
    'defs-ml': ({'pack': '*', 'lang': 'en-GB', 'defs': DEFS, 'repl': REPL}, True),
    'unkn': ({'pack': '*', 'lang': 'en', 'unkn': True}, False),
    'repl-ml': ({'pack': '*', 'lang': 'en-GB', 'repl': REPL}, True),      # replacements act on the main-language parts only
    'dcls': ({'pack': 'babel', 'dcls': 'scrartcl', 'lang': 'de-DE', 'seqs': True}, True),
}
MAIN_CFGS = ['de-all', 'en-ml', 'ru-seqs-nosp']
ALL_CFGS = list(CONFIGS)

# ---------------------------------------------------------------- vocabulary

CORE24 = ['a', ' ', '\n\n', '{', '}', '[', ']', '$', '\\[', '\\]', '%', '#1', '&', '\\\\',
          '\\verb', '\\begin', '\\end', '{itemize}', '{equation}', '\\item', "\\'", '\\footnote', '\\section', '\\xxx']
CORE = CORE24 + ['\n', '$$', '\\(', '\\)', '#', '{verbatim}', '{proof}', '{otherlanguage}', '\\"', '"a', '\\caption', '\\cite',
                 '\\selectlanguage{german}', '\\foreignlanguage{german}', '\\LTskip', '%%% LT-SKIP-BEGIN\n', '%%% LT-SKIP-END\n',
                 '\\gls@defglossaryentry{ka}{text={Ga b}}', '\\gls{ka}', '\\Gls', '\\cref{ka}',
                 '\\usepackage[poorman]{cleveref}\\YYCleverefInput{ymc.sed}',
                 '\\newcommand\\za', '\\def\\zb', '\\za', '\\zb', '\\text', '\\usepackage', '\\LTinput{nofile}', '~', '--', '\\,', '.', '*',
                 '\\documentclass', '\\newtheorem', '=', ',', '\\phantom', '\\hspace', '\\\\[', '|',
                 '\\newacronym{a}{b}{\ufb03}', '\\newglossaryentry{a}{description={\u00df}}', '\u00df', '\u0130',
                 '"', 'e\u0301', '\\usepackage{2up}', '\\usepackage{import}', '\\documentclass{my..style}', '\\LTinput{ymcempty.tex}']
DEFINERS = {'\\newcommand': '\\za', '\\def': '\\zb'}
_full = None


def full_vocab():
    """every macro and environment name registered after loading every package,
    as bare names and as \\begin{..} / \\end{..}; computed from the implementation
    (it only widens the alphabet)"""
    global _full
    if _full is None:
        from yalafi import parameters, parser, tex2txt
        parms = parameters.Parameters('en')
        packs = tex2txt.get_packages('*,cleveref', parms.package_modules)
        packs += tex2txt.get_packages('scrartcl', parms.class_modules)
        import io
        import sys
        old = sys.stderr
        sys.stderr = io.StringIO()
        try:
            p = parser.Parser(parms, packs)
        finally:
            sys.stderr = old
        macs = sorted(p.the_macros)
        envs = sorted(p.the_environments)
        _full = macs + ['\\begin{%s}' % e for e in envs] + ['\\end{%s}' % e for e in envs]
    return _full


def raw_excluded(syms, full):
    """syntactic exclusions of the C07 statement (self-calling definitions,
    redefinition of built-ins); applied to C01 as well, as those runs do not return"""
    s = ''.join(syms)
    for definer, name in (('\\newcommand\\za', '\\za'), ('\\def\\zb', '\\zb')):
        i = s.find(definer)
        if i >= 0 and len(re.findall(re.escape(name) + r'(?![A-Za-z@])', s[i + len(definer):])) >= 2:
            return 'user macro may call itself'
    for k, x in enumerate(syms[:-1]):
        if x in ('\\newcommand', '\\renewcommand', '\\def', '\\newtheorem', '\\let') and syms[k + 1].startswith('\\'):
            return 'redefinition of a built-in macro'
    if re.search(r'\\(re)?newcommand\*?\s*\{?\\[A-Za-z@]+', s) and not s.count('\\newcommand\\za') == len(re.findall(r'\\(?:re)?newcommand', s)):
        return 'redefinition of a built-in macro'
    return None


# ---------------------------------------------------------------- rich documents

def rich_forests():
    names = cat.ALL
    out = []
    step = 7
    fillers = ['label', 'ref', 'inline', 'footnote', 'emdash', 'LaTeX', 'comment']
    for i in range(0, len(names), step):
        f = []
        for j, n in enumerate(names[i:i + step]):
            t = [n]
            for k in range(cat.META[n]['slots']):
                t.append([[fillers[(i + j + k) % len(fillers)]]])
            f.append(t)
        out.append(f)
    return out


_rich = None


def rich_docs():
    global _rich
    if _rich is None:
        _rich = []
        for f in rich_forests():
            lang = 'de' if any(cat.META[n].get('lang') for n in cat.names_in(f)) else 'en'
            try:
                r = cat.render(f, '\n' if len(_rich) % 2 else ' ', lang)
            except cat.Invalid:
                r = cat.render([[t[0]] for t in f], ' ', lang)
            _rich.append(r.src)
    return _rich


TAIL_FAULTS = ['$x', '\\(x', '\\[x', '\\begin{equation}x', '\\footnote{', '\\section[', '\\begin{verbatim} x', '\\verb|x', '\\verb',
               '%%% LT-SKIP-BEGIN\nx', "\\'1", '\\LTinput{/nonexistent/f.tex}', '\\gls{zz}', '\\cref{zz}', '\\item[', '\\begin{proof}[',
               '\\foreignlanguage{german}{', '\\def', '\\def\\x', '\\newcommand{\\x}[1][d]{#2}', '\\text{', '$\\text{', '\\begin{']
TAIL = 'abcdefgh\nijklmnop'


# ---------------------------------------------------------------- case enumeration

def cases(tier, which):
    """which: 'C01' or 'C07' (C07 adds duplications and pairs of deletions)"""
    full = full_vocab()
    quick = tier == 'quick'
    # (a) raw strings
    for k in range(0, 4):
        for c in itertools.product(CORE24, repeat=k):
            for cfg in MAIN_CFGS:
                yield ['raw', list(c), cfg]
    for k in (1, 2):
        for c in itertools.product(CORE, repeat=k):
            if all(x in CORE24 for x in c):
                continue
            for cfg in MAIN_CFGS:
                yield ['raw', list(c), cfg]
    allsyms = CORE + full
    for x in allsyms:
        for cfg in ALL_CFGS:
            yield ['raw', [x], cfg]
    for x in full:
        for y in (CORE24 if quick else allsyms):
            yield ['raw', [x, y], 'de-all']
            yield ['raw', [y, x], 'en-ml']
    if not quick:
        for k in (3,):
            for c in itertools.product(CORE, repeat=k):
                if all(x in CORE24 for x in c):
                    continue
                yield ['raw', list(c), MAIN_CFGS[hash_small(c) % 3]]
        for x in full:
            for y in CORE24:
                for z in CORE24:
                    yield ['raw', [y, x, z], 'de-all']
    # (b) catalogue documents
    for n in (1, 2):
        for f in cat.forests(cat.ALL if n == 1 or not quick else cat.CORE, n):
            lang = catcheck.langs_for(f)[0]
            for cfg in (ALL_CFGS if n == 1 else ['en-ml', 'extr', 'defs-ml', 'repl-ml']):
                yield ['doc', f, ' ', lang, cfg]
    # (c) single faults of rich documents
    docs = rich_docs()
    for di, d in enumerate(docs):
        cfgs = MAIN_CFGS if not quick else [MAIN_CFGS[di % 3]]
        for cfg in cfgs + (['extr'] if di % 4 == 0 else []):
            for p in range(len(d) + 1):
                yield ['fault', di, 'prefix', p, cfg]
            for p in range(1, len(d)):
                yield ['fault', di, 'suffix', p, cfg]
            for p in range(len(d)):
                yield ['fault', di, 'delete', p, cfg]
            if which == 'C07':
                for p in range(len(d)):
                    yield ['fault', di, 'dup', p, cfg]
    # (d) error marks near the end of the text
    for fi in range(len(TAIL_FAULTS)):
        for t in range(0, 17):
            for cfg in MAIN_CFGS + ['extr', 'repl']:
                yield ['tail', fi, t, cfg]
                yield ['tail2', fi, t, cfg]
            yield ['tail3', fi, t, MAIN_CFGS[(fi + t) % 3]]
    # (f) constructs inside a macro body / default value, used at the end of the text
    for bi in range(len(bodies())):
        for ui in range(len(BODY_USES)):
            for form in (0, 1):
                for cfg in MAIN_CFGS:
                    yield ['body', bi, ui, form, cfg]
    # (e) full option grid on a few rich documents (thorough)
    if not quick:
        for gi in range(len(GRID_DOCS)):
            for vals in grid_points():
                yield ['grid', gi, vals]
    if which == 'C07':
        yield from keyval_cases(tier)
        if not quick:
            for di, d in enumerate(docs):
                d = d[:160]
                for p in range(len(d)):
                    for q in range(p + 1, len(d)):
                        yield ['fault2', di, p, q, MAIN_CFGS[di % 3]]


# (f) every construct inside the body (or the default value) of a user macro that is used at the very end of the text:
# generated tokens carry the position of the call; whatever they are turned into must stay inside the source
RAW_BODIES = ['#1\\)', '\\]x', '\\(', '\n\n', '#1\n\n', ' #1 ', '\\verb|abcdefghij|', '\\verb|ab|#1', '#1#1#1#1', '\\\\', '~~~~', '---', '\\begin{verbatim}abcdefgh\\end{verbatim}',
              '\\ss\\ss', '\\newacronym{a}{b}{\u00df}', '\\newacronym{a}{b}{\ufb03 x}', '\\Gls{ka}', '$$a$$', '\\item', '\\\\[2ex]', '%\n', '\\footnote{#1\n\n#1}',
              '\\section{#1}', "\\'e", '"a', '\\LTinput{nofile}', '\\foreignlanguage{german}{\n    x y}']
BODY_USES = ['A \\mq{x}', 'A\n\\mq~', 'A \\mq x', '\\mq{}', 'A\\footnote{\\mq{y}}', '\\mq{\\mq{z}}']


def body_sources():
    out = list(RAW_BODIES)
    for f in cat.forests(cat.ALL, 1):
        try:
            r = cat.render(f, ' ', 'de' if cat.META[f[0][0]].get('lang') else 'en', frame='bare')
        except cat.Invalid:
            continue
        out.append(r.src[r.body_start:])
    return out


_bodies = None


def bodies():
    global _bodies
    if _bodies is None:
        _bodies = body_sources()
    return _bodies


KV_ALPHA = ['a', '=', ',', '{', '}', ' ', 'b', ']', '[', 'description', 'text']
KV_FRAMES = ['\\usepackage[%s]{x}', '\\documentclass[%s]{article}', '\\newglossaryentry{k}{%s}',
             '\\gls@defglossaryentry{k}{%s}\\gls{k}', '\\newacronym[%s]{k}{s}{l}', '\\usepackage[%s]{babel}']


def keyval_cases(tier):
    """the key-value parser behind package / class options and glossary entries: all strings
    up to length 4 (5) over its own alphabet, in every frame that reaches it"""
    L = 4 if tier == 'quick' else 5
    for k in range(L + 1):
        for c in itertools.product(KV_ALPHA if k <= 2 else KV_ALPHA[:9], repeat=k):       # key names only in short strings
            for fi in range(len(KV_FRAMES)):
                if k == L and fi > 1 and tier == 'quick':
                    continue
                yield ['kv', fi, ''.join(c), 'de-all' if fi % 2 else 'en-ml']


GRID = {'lang': ['en', 'de', 'ru'], 'pack': ['', '*', 'babel,amsmath'], 'dcls': ['', 'scrartcl'], 'defs': [None, DEFS],
        'extr': [None, 'footnote,caption'], 'seqs': [False, True], 'nosp': [False, True], 'repl': [None, REPL], 'ml': [False, True]}


def grid_points():
    keys = list(GRID)
    for vals in itertools.product(*[range(len(GRID[k])) for k in keys]):
        yield list(vals)


def grid_config(vals):
    keys = list(GRID)
    o = {}
    ml = False
    for k, v in zip(keys, vals):
        val = GRID[k][v]
        if k == 'ml':
            ml = val
        elif val not in (None, False, ''):
            o[k] = val
        elif k == 'pack':
            o[k] = ''
    if ml:
        o['lang'] = {'en': 'en-GB', 'de': 'de-DE', 'ru': 'ru-RU'}[o.get('lang', 'en')]
    return o, ml


GRID_DOCS = ['A \\footnote{B $x$} \\begin{equation}a=b.\\end{equation} C\\section{D}\\LTskip{E} F',
             '\\usepackage{babel} Waaq Wabq Wacq \\foreignlanguage{german}{G "a} H \\caption{I} \\verb|x| --- \\item J',
             '$x \\begin{itemize} \\item[ \\verb|', '']


def hash_small(c):
    return sum(len(x) * (i + 1) for i, x in enumerate(c))


def source_of(case):
    kind = case[0]
    if kind == 'raw':
        return ''.join(case[1]), case[2]
    if kind == 'doc':
        r = cat.render(case[1], case[2], case[3])
        return r.src, case[4]
    if kind == 'fault':
        d = rich_docs()[case[1]]
        p = case[3]
        if case[2] == 'prefix':
            return d[:p], case[4]
        if case[2] == 'suffix':
            return d[p:], case[4]
        if case[2] == 'delete':
            return d[:p] + d[p + 1:], case[4]
        if case[2] == 'dup':
            return d[:p + 1] + d[p] + d[p + 1:], case[4]
    if kind == 'fault2':
        d = rich_docs()[case[1]][:160]
        p, q = case[2], case[3]
        return d[:p] + d[p + 1:q] + d[q + 1:], case[4]
    if kind == 'tail':
        return 'A ' + TAIL_FAULTS[case[1]] + TAIL[:case[2]], case[3]
    if kind == 'tail3':
        return 'A\\LTinput{ymcempty.tex} ' + TAIL_FAULTS[case[1]] + TAIL[:case[2]], case[3]
    if kind == 'tail2':
        return 'A\\footnote{B ' + TAIL_FAULTS[case[1]] + TAIL[:case[2]], case[3]
    if kind == 'kv':
        return 'A ' + KV_FRAMES[case[1]] % case[2] + ' B\n', case[3]
    if kind == 'body':
        b = bodies()[case[1]]
        pre = '\\gls@defglossaryentry{ka}{text={Gxaq},plural={Gxbq},description={Gxcq Gxdq}}\n' if 'ls{ka}' in b else ''
        if case[3] == 0:
            d = '\\newcommand{\\mq}[1]{%s}' % b
        else:
            d = '\\newcommand{\\mq}[2][%s]{#1#2}' % b.replace('#1', '')
        return pre + d + '\n' + BODY_USES[case[2]], case[4]
    if kind == 'grid':
        return GRID_DOCS[case[1]], 'grid:' + ','.join(map(str, case[2]))
    raise ValueError(kind)


def run(case):
    """returns (src, cfgname, obs, skip reason)"""
    try:
        src, cfg = source_of(case)
    except cat.Invalid as e:
        return None, None, None, e.args[0]
    if case[0] == 'raw':
        ex = raw_excluded(case[1], full_vocab())
        if ex:
            return src, cfg, None, ex
    opts, ml = config_of(cfg)
    o = impl.run_filter(src, opts, ml=ml)
    return src, cfg, o, None


def config_of(cfg):
    if cfg.startswith('grid:'):
        return grid_config([int(x) for x in cfg[5:].split(',')])
    return CONFIGS[cfg]


def bounds(tier, which):
    return {'core24': CORE24, 'core_symbols': len(CORE), 'full_vocabulary_names': len(full_vocab()),
            'raw_max_len': {'core24': 3, 'core': 2 if tier == 'quick' else 3, 'full': '2 (name x core24 symbol)' if tier == 'quick' else '2 (name x any symbol or name), 3 (name in the middle of core24 symbols)'},
            'catalogue_docs_max_nodes': 2, 'rich_documents': len(rich_docs()),
            'faults': ['every prefix', 'every suffix', 'every single-character deletion'] +
                      (['every single-character duplication', 'key-value parser strings'] if which == 'C07' else []) +
                      (['all pairs of deletions on the first 160 characters'] if which == 'C07' and tier != 'quick' else []),
            'option_grid': ('%d combinations x %d documents' % (len(list(grid_points())), len(GRID_DOCS))) if tier != 'quick' else 'thorough tier only', 'tail_faults': len(TAIL_FAULTS), 'tail_lengths': '0..16', 'configurations': {k: repr(v) for k, v in CONFIGS.items()}}


def explain(case):
    src, cfg, o, skip = run(case)
    s = 'case %r\nsource %r\nconfig %s = %r\n' % (case, src, cfg, config_of(cfg) if cfg else None)
    if skip:
        return s + 'skipped: ' + skip
    return s + 'result kind=%s info=%s\nvalue %r\nstderr %r' % (o.kind, o.info, o.result, o.stderr[:500])


def init_worker():
    catcheck.init_worker()
    full_vocab()
    rich_docs()
    bodies()
