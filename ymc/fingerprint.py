"""Canonical deep hash of all interpreter state of yalafi that can outlive a call
(DESIGN 2.5): globals of every yalafi.* module; containers recursively;
instances by class name and __dict__; functions by qualified name, defaults,
keyword defaults and closure cells; classes by their non-callable
attributes; compiled regexes by pattern; cycles by first-visit index."""
import hashlib
import importlib
import pkgutil
import re
import sys
import types

SKIP = ('__builtins__', '__cached__', '__spec__', '__loader__', '__doc__', '__file__', '__path__', '__package__')


def _has(c):
    try:
        c.cell_contents
        return True
    except ValueError:
        return False


def canon(o, seen):
    if isinstance(o, (int, float, str, bytes, bool, type(None))):
        return repr(o)
    i = id(o)
    if i in seen:
        return '<cycle%d>' % seen[i]
    seen[i] = len(seen)
    if isinstance(o, (list, tuple)):
        return type(o).__name__ + '[' + ','.join(canon(x, seen) for x in o) + ']'
    if isinstance(o, (set, frozenset)):
        return 'set{' + ','.join(sorted(canon(x, seen) for x in o)) + '}'
    if isinstance(o, dict):
        return 'dict{' + ','.join(sorted(canon(k, seen) + ':' + canon(v, seen) for k, v in o.items())) + '}'
    if isinstance(o, types.ModuleType):
        return '<module %s>' % o.__name__
    if isinstance(o, re.Pattern):
        return '<re %r>' % o.pattern
    if isinstance(o, types.FunctionType):
        cl = [c.cell_contents for c in (o.__closure__ or ()) if _has(c)]
        return '<fn %s.%s d=%s k=%s c=%s>' % (o.__module__, o.__qualname__, canon(o.__defaults__, seen),
                                             canon(o.__kwdefaults__, seen), canon(cl, seen))
    if isinstance(o, type):
        if not o.__module__.startswith('yalafi'):
            return '<class %s.%s>' % (o.__module__, o.__qualname__)
        d = {k: v for k, v in vars(o).items() if not k.startswith('__') and not callable(v)}
        fns = {k: canon(v, seen) for k, v in vars(o).items() if isinstance(v, types.FunctionType)}
        return '<class %s.%s %s %s>' % (o.__module__, o.__qualname__, canon(d, seen), canon(fns, seen))
    if isinstance(o, (types.BuiltinFunctionType, types.MethodType, types.GeneratorType)):
        return '<%s>' % type(o).__name__
    d = getattr(o, '__dict__', None)
    if d is not None:
        return '<obj %s %s>' % (type(o).__qualname__, canon(d, seen))
    return '<%s>' % type(o).__name__


def preimport():
    """import every yalafi module now, so that a later fingerprint change is a change of data, never a lazy import"""
    import yalafi
    import yalafi.tex2txt       # first: the import order of the core modules matters (circular imports)
    import yalafi.documentclasses
    import yalafi.packages
    for pkg in (yalafi.packages, yalafi.documentclasses):
        for m in pkgutil.iter_modules(pkg.__path__):
            importlib.import_module(pkg.__name__ + '.' + m.name)
    for name in ('tex2txt', 'parser', 'parameters', 'scanner', 'mathparser', 'handlers', 'utils', 'defs'):
        importlib.import_module('yalafi.' + name)
    for name in ('checks', 'genhtml', 'genjson', 'gentext', 'genxml', 'proofreader', 'server', 'utils', 'addpacks'):
        importlib.import_module('yalafi.shell.' + name)


def fingerprint(exclude_modules=('yalafi.shell.shell',)):
    """-> (hash of everything, {module: hash})"""
    parts = {}
    for name in sorted(sys.modules):
        if not name.startswith('yalafi') or name in exclude_modules:
            continue
        m = sys.modules[name]
        if m is None:
            continue
        g = {k: v for k, v in vars(m).items() if k not in SKIP}
        parts[name] = hashlib.sha1(canon(g, {}).encode('utf-8', 'surrogatepass')).hexdigest()[:10]
    total = hashlib.sha1(repr(sorted(parts.items())).encode()).hexdigest()[:12]
    return total, parts
