"""C12 - multi-language mode assigns every word to exactly one part of the right language.

Well-bracketed histories of push / pop / replace events on the language stack
are enumerated as trees over language constructs, with words before, inside
and after every construct.  Reference model: a stack semantics for the
language in force; placeholder rule for flat short insertions."""
import re

from .. import impl

LANGS = {'german': 'de-DE', 'english': 'en-GB', 'russian': 'ru-RU', 'french': 'fr'}
LCR = {'en': ['K-K-K', 'L-L-L', 'M-M-M', 'N-N-N'], 'de': ['K-K-K', 'L-L-L', 'M-M-M', 'N-N-N'],
       'ru': ['К-К-К', 'Л-Л-Л', 'М-М-М', 'Н-Н-Н']}
WORD = re.compile(r'W[a-z][a-z]q')


def cons(tier):
    ls = ['german', 'english', 'russian'] + (['french'] if tier != 'quick' else [])
    c = [('F', l) for l in ls] + [('O', l) for l in ls] + [('S', l) for l in ls] + [('N', None), ('B', None), ('H', None)]
    if tier != 'quick':
        c += [('P', 'german')]      # otherlanguage*
    return c


def trees(C, n):
    if n == 0:
        yield []
        return
    for k in range(1, n + 1):
        for first in tree(C, k):
            for rest in trees(C, n - k):
                yield [first] + rest


def tree(C, k):
    for ci, (c, l) in enumerate(C):
        if c == 'S':
            if k == 1:
                yield [ci, []]
        else:
            for kids in trees(C, k - 1):
                yield [ci, kids]


class Ctx:
    def __init__(self, C, inw, tail):
        self.C = C
        self.n = 0
        self.words = {}
        self.ins = []
        self.sel = []
        self.last = None
        self.inw = inw
        self.tail = tail
        self.nflow = 0
        self.states = set()

    def w(self, lang, flow, path):
        name = 'W' + chr(97 + self.n // 26) + chr(97 + self.n % 26) + 'q'
        self.n += 1
        self.words[name] = (lang, flow, path)
        self.last = name
        return name + ('"a' if self.tail == 'SHORT' else '')    # probe: a babel shorthand glued to the word


def render(seq, stack, ctx, flow, path, nw=1, nested=False):
    out = [' '.join(ctx.w(stack[-1], flow, path) for _ in range(nw))]
    for i, (ci, kids) in enumerate(seq):
        c, l = ctx.C[ci]
        pend = None
        ctx.states.add((tuple(stack), flow > 0, len(path)))
        if c in 'FOP':
            st = stack + [LANGS[l]]
            before = ctx.last
            n0 = ctx.n
            inner = render(kids, st, ctx, flow, path + ((c, i),), ctx.inw if not kids else nw, nested=True)
            if ctx.tail == 'LEADWS':
                inner = '\n    ' + inner
            if ctx.tail and ctx.tail not in ('NOWORD', 'ADJ', 'ADJNL', 'LEADWS', 'SHORT'):
                inner += ' ' + ctx.tail
            if c == 'F':
                out.append('\\foreignlanguage{%s}{%s}' % (l, inner))
            elif c == 'O':
                out.append(('\\begin{otherlanguage}{%s}\n%s\n\\end{otherlanguage}' if ctx.tail == 'ADJNL' else '\\begin{otherlanguage}{%s} %s \\end{otherlanguage}') % (l, inner))
            else:
                out.append('\\begin{otherlanguage*}{%s} %s \\end{otherlanguage*}' % (l, inner))
            rec = [before, ctx.n - n0, stack[-1], not kids]
            ctx.ins.append(rec)
            pend = rec
        elif c == 'S':
            if stack[-1] != LANGS[l]:
                ctx.sel.append([ctx.last, None])
                pend = ctx.sel[-1]
            stack[-1] = LANGS[l]
            out.append('\\selectlanguage{%s}' % l)
        elif c == 'N':
            ctx.nflow += 1
            out.append('\\footnote{%s}' % render(kids, [stack[-1]], ctx, ctx.nflow, path + (('N', i),), nw))
        elif c == 'B':
            out.append('\\textbf{%s}' % render(kids, stack, ctx, flow, path + (('B', i),), nw))
        elif c == 'H':
            # a heading: its argument is no group, a \selectlanguage in it stays in force (the heading is expanded on trial first)
            out.append('\\section{%s}' % render(kids, stack, ctx, flow, path + (('H', i),), nw))
        if nested and ctx.tail == 'NOWORD' and i == len(seq) - 1:
            continue        # the inner construct closes together with the enclosing one
        if ctx.tail in ('ADJ', 'ADJNL') and i < len(seq) - 1 and c in 'FOP' and ctx.C[seq[i + 1][0]][0] in 'FOP':
            continue        # two language constructs directly behind each other (no word between them)
        first = 'W' + chr(97 + ctx.n // 26) + chr(97 + ctx.n % 26) + 'q'
        out.append(' '.join(ctx.w(stack[-1], flow, path) for _ in range(nw)))
        if pend is not None:
            pend.append(first)
    return ('\n' if ctx.tail == 'ADJNL' else ' ').join(out)


def bad_shape(C, seq, stack, infoot, depth=0):
    """shapes outside the model: \\selectlanguage inside a group, argument or detached flow"""
    for ci, kids in seq:
        c, l = C[ci]
        if c in 'FOP':
            if bad_shape(C, kids, stack + [LANGS[l]], infoot, depth):
                return True
        elif c == 'S':
            if depth:
                return True
            stack[-1] = LANGS[l]
        elif c == 'N':
            # a footnote is a flow of its own: a switch inside it ends with it (TeX: the argument is a group)
            if bad_shape(C, kids, [stack[-1]], True, 0):
                return True
        elif c == 'H':
            if bad_shape(C, kids, stack, infoot, depth):
                return True
        else:
            if bad_shape(C, kids, stack, infoot, depth + 1):
                return True
    return False


# how the main language is set: (preamble, option lang, resulting main language)
PREAMBLES = {
    'opt-en': ('\\usepackage{babel}\n', 'en-GB', 'en-GB'),
    'opt-de': ('\\usepackage{babel}\n', 'de-DE', 'de-DE'),
    'opt-ru': ('\\usepackage{babel}\n', 'ru-RU', 'ru-RU'),
    'pkg-de': ('\\usepackage[english,german]{babel}\n', 'en-GB', 'de-DE'),
    'cls-de': ('\\documentclass[ngerman]{article}\\usepackage{babel}\n', 'en-GB', 'de-DE'),
    'cls-en-pkg-de': ('\\documentclass[english]{article}\n\\usepackage[ngerman]{babel}\n', 'ru-RU', 'de-DE'),
    'cls-ru-pkg-none': ('\\documentclass[russian,a4paper]{scrartcl}\n\\usepackage[T1]{fontenc}\\usepackage{babel}\n', 'en-GB', 'ru-RU'),
}
TAILS = [None, '\\LaTeX', '\\xxx', 'NOWORD', 'ADJ', 'ADJNL', 'LEADWS', '\\footnotemark', '\\LaTeX ', '\\xxx\n', 'SHORT']


class C12:
    id = 'C12'
    level = 'model_checking'
    chunk = 100
    rule = ('states = (tree of language constructs, way the main language is set, threshold, words per insertion, trailing macro); '
            'non-trivial = the tree contains at least one language construct that changes the language in force')
    assumptions = [
        'joining across nested or empty insertions is outside the model: the statement fixes labels there, the placeholder rule only for a flat insertion',
        '\\selectlanguage inside a brace group or the argument of a font macro is not generated (TeX would end its effect with the group, the statement is silent); '
        'inside a footnote it acts up to the end of the footnote, inside a heading it stays in force',
    ]

    def bounds(self, tier):
        return {'constructs': ['%s:%s' % c for c in cons(tier)], 'max_constructs': 3 if tier == 'quick' else '4 (3 for trees with a heading or a switch inside a footnote)',
                'thresholds': [0, 2, 3] if tier == 'quick' else [0, 1, 2, 3, 4, 5], 'words_in_flat_insertion': [1, 4],
                'main_language_set_by': list(PREAMBLES), 'trailing_macro_in_insertion': TAILS}

    def cases(self, tier, seed):
        C = cons(tier)
        nmax = 3 if tier == 'quick' else 4
        ths = [0, 2, 3] if tier == 'quick' else [0, 1, 2, 3, 4, 5]
        for n in range(1, nmax + 1):
            for seq in trees(C, n):
                if bad_shape(C, seq, ['x'], False):
                    continue
                if tier != 'quick' and n == nmax and self.newer_shape(C, seq, False):
                    continue        # headings and switches inside footnotes: up to nmax - 1 constructs
                if n == nmax:
                    combos = [('opt-en', ths[1], 1, None), ('opt-de', ths[-1], 4, None)]
                elif n == nmax - 1:
                    combos = [(p, t, inw, None) for p in ('opt-en', 'opt-de') for t in ths for inw in (1, 4)]
                    combos += [('opt-en', 2, 1, tl) for tl in TAILS[1:]] + [('opt-de', 2, 1, 'SHORT'), ('opt-ru', 0, 1, 'SHORT')]
                else:
                    combos = [(p, t, inw, tl) for p in PREAMBLES for t in ths for inw in (1, 4) for tl in TAILS]
                for p, t, inw, tl in combos:
                    yield [tier, seq, p, t, inw, tl]

    def judge(self, case):
        tier, seq, pre, thresh, inw, tail = case
        C = cons(tier)
        preamble, optlang, main = PREAMBLES[pre]
        ctx = Ctx(C, inw, tail)
        src = preamble + render(seq, [main], ctx, 0, ()) + '\n'
        o = impl.run_filter(src, {'pack': '*', 'lang': optlang}, ml=True, thresh=thresh)
        s = impl.run_filter(src, {'pack': '*', 'lang': optlang})
        if o.kind != 'ok' or s.kind != 'ok':
            return {'viol': [{'clause': 'returns', 'sig': 'C12:no-result', 'detail': {'source': src, 'info': o.info + s.info}}],
                    'out': o.info, 'nt': True, 'tr': 1}
        ml = o.result
        single = s.result[0]
        det = {'source': src, 'threshold': thresh, 'main_language': main, 'parts': {l: [p[0] for p in ml[l]] for l in ml}}
        found = {}
        viol = []
        for lang in ml:
            for pi, (plain, nums) in enumerate(ml[lang]):
                nums = list(nums)
                if len(nums) != len(plain) or any(not 1 <= q <= len(src) for q in nums):
                    viol.append({'clause': 'every part has a position list of the same length, inside the source',
                                 'sig': 'C12:map-length', 'detail': dict(det, part=plain, map=nums)})
                    continue
                for m in WORD.finditer(plain):
                    found.setdefault(m.group(0), []).append((lang, pi))
                    off = src.index(m.group(0))
                    if nums[m.start():m.end()] != list(range(off + 1, off + 5)):
                        viol.append({'clause': 'every word keeps its exact position', 'sig': 'C12:position',
                                     'detail': dict(det, word=m.group(0), got=nums[m.start():m.end()], expected=off + 1)})
        kinds = ''.join(sorted(set(C[ci][0] for ci in self.flat(seq))))
        for w, (lang, flow, path) in ctx.words.items():
            if w not in found:
                viol.append({'clause': 'every word occurs in exactly one part', 'sig': 'C12:lost:' + kinds, 'detail': dict(det, word=w)})
                break
            if len(found[w]) != 1:
                viol.append({'clause': 'every word occurs in exactly one part', 'sig': 'C12:duplicated:' + kinds, 'detail': dict(det, word=w, parts_of_word=found[w])})
                break
            if tail == 'SHORT':
                plang, ppi = found[w][0]
                ptxt = ml[plang][ppi][0]
                k = ptxt.index(w) + 4
                probe = ptxt[k:k + 2]
                if probe[:1] != ('\u00e4' if plang == 'de-DE' else '"') and found[w][0][0] == lang:
                    viol.append({'clause': 'the text of a part is expanded with the settings of the language it is labelled with (babel shorthand "a behind each word)',
                                 'sig': 'C12:shorthand:' + kinds, 'detail': dict(det, word=w, part_language=plang, probe=probe)})
                    break
            if found[w][0][0] != lang:
                why = 'preamble:' + pre if not path and lang == main and pre not in ('opt-en', 'opt-de', 'opt-ru') and not self.has_select(C, seq) else kinds + (':tail' if tail else '')
                viol.append({'clause': 'the part is labelled with the language in force at the word',
                             'sig': 'C12:label:' + why, 'detail': dict(det, word=w, labelled=found[w][0][0], in_force=lang)})
                break
        if not viol:
            if sorted(WORD.findall(single)) != sorted(ctx.words):
                viol.append({'clause': 'the parts contain the same words as the single-language run', 'sig': 'C12:conservation',
                             'detail': dict(det, single=single)})

            def part_of(w):
                return found[w][0]

            def between(a, b):
                lang, pi = part_of(a)
                plain = ml[lang][pi][0]
                return plain[plain.index(a) + 4:plain.index(b)]
            for rec in ctx.ins:
                if len(rec) != 5:
                    continue
                before, nwords, slang, flat, after = rec
                if not flat or before is None or tail:
                    continue
                if any(p[0] in 'FOP' for p in ctx.words[before][2]):
                    continue
                if ctx.words[before][1] != ctx.words[after][1] or ctx.words[before][0] != ctx.words[after][0]:
                    continue
                if ctx.words[before][2] != ctx.words[after][2]:
                    continue
                # the insertion must really be foreign
                inner_lang = [ctx.words[w][0] for w in ctx.words if w > before and w < after]
                if inner_lang and inner_lang[0] == slang and all(x == slang for x in inner_lang):
                    # an insertion in the language already in force is no foreign insertion and no \selectlanguage
                    if part_of(before) != part_of(after):
                        viol.append({'clause': 'an insertion in the language already in force does not end the part',
                                     'sig': 'C12:split-same', 'detail': dict(det, before=before, after=after, words=nwords)})
                    continue
                if not inner_lang or inner_lang[0] == slang:
                    continue
                same = part_of(before) == part_of(after)
                if nwords <= thresh:
                    if not same:
                        viol.append({'clause': 'a foreign insertion of at most threshold words does not end the part',
                                     'sig': 'C12:split-short', 'detail': dict(det, before=before, after=after, words=nwords)})
                    else:
                        b = between(before, after).split()
                        coll = LCR.get(ctx.words[before][0][:2], LCR['en'])
                        if len(b) != 1 or b[0] not in coll:
                            viol.append({'clause': 'the short insertion is represented by one language-change placeholder',
                                         'sig': 'C12:placeholder', 'detail': dict(det, before=before, after=after, between=b)})
                elif same:
                    viol.append({'clause': 'a longer insertion ends the part', 'sig': 'C12:join-long',
                                 'detail': dict(det, before=before, after=after, words=nwords)})
            for r in ctx.sel:
                if len(r) == 3 and r[0] is not None and part_of(r[0]) == part_of(r[2]):
                    viol.append({'clause': '\\selectlanguage to another language ends the part', 'sig': 'C12:select-join', 'detail': dict(det, around=r)})
        nt = any(C[ci][0] in 'FOPS' for ci in self.flat(seq))
        return {'viol': viol[:2], 'out': repr(sorted((l, [p[0] for p in ml[l]]) for l in ml)), 'nt': nt, 'tr': 1,
                'sets': {'model_states(stack,flow,depth)': [repr(x) for x in ctx.states]}}

    def newer_shape(self, C, seq, infoot):
        for ci, kids in seq:
            c = C[ci][0]
            if c == 'H' or (c == 'S' and infoot) or self.newer_shape(C, kids, infoot or c == 'N'):
                return True
        return False

    def flat(self, seq):
        for ci, kids in seq:
            yield ci
            yield from self.flat(kids)

    def has_select(self, C, seq):
        return any(C[ci][0] == 'S' for ci in self.flat(seq))

    def explain(self, case):
        tier, seq, pre, thresh, inw, tail = case
        C = cons(tier)
        ctx = Ctx(C, inw, tail)
        src = PREAMBLES[pre][0] + render(seq, [PREAMBLES[pre][2]], ctx, 0, ()) + '\n'
        return 'source %r\noption lang=%s threshold=%d\nmodel language per word: %r' % (
            src, PREAMBLES[pre][1], thresh, {w: v[0] for w, v in ctx.words.items()})


CHECK = C12()
