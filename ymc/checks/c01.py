"""C01 - every output character has exactly one source position, inside the source."""
import os
import subprocess
import sys
import tempfile

from .. import core, impl, rawspace


def parts_of(result, ml):
    if ml:
        return [(lang, p[0], list(p[1])) for lang in result for p in result[lang]]
    return [('', result[0], list(result[1]))]


def judge_parts(src, cfg, result, ml):
    viol = []
    unkn = rawspace.config_of(cfg)[0].get('unkn')
    for lang, plain, nums in parts_of(result, ml):
        if len(plain) != len(nums):
            viol.append(('length', {'lang': lang, 'len_plain': len(plain), 'len_map': len(nums)}))
            continue
        if unkn:
            continue
        bad = [(i, p) for i, p in enumerate(nums) if not (isinstance(p, int) and 1 <= p <= len(src))]
        if bad:
            i, p = bad[0]
            viol.append(('range', {'lang': lang, 'index': i, 'position': p, 'len_source': len(src),
                                   'text_there': plain[max(0, i - 10):i + 10]}))
    return viol


def site(src, case):
    """signature component: what kind of construct the out-of-range text belongs to"""
    for key in ('cref', 'gls', 'footnote', 'verb', 'LTinput', 'section', 'item', '$', 'caption'):
        if key in src:
            return key
    return case[0]


class C01:
    id = 'C01'
    level = 'model_checking'
    chunk = 250
    rule = ('states = (source string, option set); non-trivial = the filter returned a non-empty text in which some '
            'position is repeated or non-consecutive (generated text, error mark, removed markup), i.e. the map is not the identity')
    assumptions = [
        'strings above the bounds and other Unicode are not covered; word letters are never inspected by the filter',
        'inputs excluded by the C07 statement (self-calling definitions, redefined built-ins) do not return and are skipped',
        'a call that does not return a value is not judged here (C07 judges it)',
    ]
    init_worker = staticmethod(rawspace.init_worker)
    explain = staticmethod(rawspace.explain)

    def bounds(self, tier):
        return rawspace.bounds(tier, 'C01')

    def cases(self, tier, seed):
        return rawspace.cases(tier, 'C01')

    def judge(self, case):
        src, cfg, o, skip = rawspace.run(case)
        if skip:
            return {'viol': [], 'out': 'skip', 'nt': False, 'tr': 1, 'cnt': {'skipped:' + skip: 1}}
        if o.kind != 'ok':
            return {'viol': [], 'out': o.kind, 'nt': False, 'tr': 1, 'cnt': {'no_result (C07 judges)': 1}}
        ml = rawspace.config_of(cfg)[1]
        viol = [{'clause': 'len(plain)==len(charmap) and 1<=p<=len(source)', 'sig': 'C01:%s:%s' % (k, site(src, case)),
                 'detail': dict(d, source=src, config=cfg)} for k, d in judge_parts(src, cfg, o.result, ml)]
        nt = False
        for lang, plain, nums in parts_of(o.result, ml):
            if plain and any(nums[i + 1] != nums[i] + 1 for i in range(len(nums) - 1)):
                nt = True
        return {'viol': viol, 'out': [cfg, repr(o.result)], 'nt': nt, 'tr': 1}

    # ---- CLI clause: --nums file has one number per character written
    # ---- CLI clause: --nums file has one number per character written
    def conformance_picks(self, seed):
        k = 997 + seed % 13
        picked = []
        for i, case in enumerate(rawspace.cases('quick', 'C01')):
            if i % k == seed % k and case[-1] in ('de-all', 'en-ml', 'ru-seqs-nosp', 'extr', 'repl'):
                picked.append(case)
            if len(picked) >= 120:
                break
        return picked

    def finish(self, ctx):
        self.init_worker() if hasattr(self, 'init_worker') else None
        n = 0
        viol = []
        for case in self.conformance_picks(ctx['seed']):
            k, vs = self.conformance_one(case)
            n += k
            viol += [(case, v) for v in vs]
        return {'conformance_replays': n, 'viol': viol}

    def conformance_one(self, case):
        d = core.scratch_dir()
        src, cfg, o, skip = rawspace.run(case)
        if skip or o.kind != 'ok' or '\r' in src:
            return 0, []
        opts, ml = rawspace.CONFIGS[cfg]
        fn = os.path.join(d, 'in.tex')
        with open(fn, 'w', encoding='utf-8', newline='') as f:
            f.write(src)
        args = [sys.executable, '-m', 'yalafi', '--pack', opts.get('pack', ''), '--lang', opts['lang'], '--nums', os.path.join(d, 'nums')]
        if opts.get('seqs'):
            args.append('--seqs')
        if opts.get('nosp'):
            args.append('--nosp')
        if opts.get('extr'):
            args += ['--extr', opts['extr']]
        if opts.get('repl'):
            with open(os.path.join(d, 'repl.txt'), 'w') as f:
                f.writelines(opts['repl'])
            args += ['--repl', os.path.join(d, 'repl.txt')]
        if ml:
            args += ['--mula', os.path.join(d, 'part')]
        for old in os.listdir(d):
            if old.startswith('part.') or old.startswith('nums'):
                os.unlink(os.path.join(d, old))
        p = subprocess.run(args + [fn], cwd=d, stdout=subprocess.PIPE, stderr=subprocess.PIPE,
                           env=dict(os.environ, PYTHONPATH=core.REPO))
        problems = []
        if p.returncode != 0:
            problems.append('exit status %d: %s' % (p.returncode, p.stderr.decode()[-200:]))
        elif ml:
            for lang in o.result:
                for nr, (plain, nums) in enumerate(o.result[lang], 1):
                    try:
                        txt = open(os.path.join(d, 'part.%d.%s' % (nr, lang)), encoding='utf-8', newline='').read()
                        lines = open(os.path.join(d, 'nums.%d.%s' % (nr, lang))).read().split()
                    except OSError as e:
                        problems.append('missing part file: %s' % e)
                        continue
                    if len(lines) != len(txt) or txt != plain or [int(x) for x in lines] != list(nums):
                        problems.append('part %d.%s: %d characters, %d numbers' % (nr, lang, len(txt), len(lines)))
        else:
            txt = p.stdout.decode('utf-8')
            lines = open(os.path.join(d, 'nums')).read().split()
            if len(lines) != len(txt):
                problems.append('%d characters on stdout, %d numbers' % (len(txt), len(lines)))
            elif txt != o.result[0] or [int(x.rstrip('+')) for x in lines] != list(o.result[1]):
                problems.append('CLI output differs from tex2txt() result')
            elif any(not 1 <= int(x.rstrip('+')) <= len(src) for x in lines):
                problems.append('number out of range')
        if problems:
            return 1, [{'clause': '--nums file: one number per character written, equal to the API result',
                        'sig': 'C01:cli:' + cfg, 'detail': {'source': src, 'args': args[3:], 'problems': problems}}]
        return 1, []


CHECK = C01()
