"""C14 - a proofreader match is reported at the flagged word in the LaTeX file.

Catalogue documents (several lines, non-ASCII text, footnotes) and
multi-language documents; the fake proofreader flags EVERY word W..q of the
text it is given.  Every output mode must report each flagged word at the
offset where the word stands in the source (known from the renderer)."""
import json
import os
import re
import socket
import subprocess
import sys
import time
import urllib.parse
import urllib.request

from .. import catalogue as cat
from .. import catcheck, core, impl, reports, shell
from . import c12 as ml_docs

SEP = ' ä\n'
MODES = ['plain', 'json', 'xml', 'xml-b', 'html']
WORD = cat.WORD_RE


def answer_all(text, cmd):
    return shell.lt_answer([shell.lt_match(text, m.start(), 4, message='flag ' + m.group(0), rule='R_' + m.group(0))
                            for m in WORD.finditer(text)])


def answer_one(k):
    def f(text, cmd):
        ms = list(WORD.finditer(text))
        f.seen += len(ms)
        sel = [m for i, m in enumerate(ms, f.seen - len(ms)) if i == k]
        return shell.lt_answer([shell.lt_match(text, m.start(), 4, message='flag ' + m.group(0), rule='R_' + m.group(0)) for m in sel])
    f.seen = 0
    return f


def pair_spans(text):
    ms = list(WORD.finditer(text))
    return [(ms[i].start(), ms[i + 1].end() - ms[i].start(), ms[i].group(0), ms[i + 1].group(0)) for i in range(0, len(ms) - 1, 2)]


def answer_pairs(text, cmd):
    # a match covering two consecutive words (as a word-repetition rule does): it may cross a line break
    return shell.lt_answer([shell.lt_match(text, a, n, message='flag %s-%s' % (w1, w2), rule='R_' + w1) for a, n, w1, w2 in pair_spans(text)])


def tail_spans(text):
    return [(m.start(), 6, m.group(1)) for m in re.finditer(r'(W[a-z][a-z]q) \u00e4', text)]


def answer_tail(text, cmd):
    # the flagged text ends with a non-ASCII character (byte columns of xml-b)
    return shell.lt_answer([shell.lt_match(text, a, n, message='flag ' + w + '+', rule='R_' + w) for a, n, w in tail_spans(text)])


def source_for(case):
    """-> (tex, {word: source offset}, argv without file, filter options, multi-language?, threshold)"""
    if case[0] == 'doc':
        _, forest, lang = case[:3]
        r = cat.render(forest, SEP, lang)
        code = 'de-DE' if lang == 'de' else 'en-GB'
        return r.src, {w: off for w, off, fl, path in r.words}, ['--language', code], {'pack': '*', 'lang': code}, False, None
    _, seq, pre, thresh, rthresh = case
    C = ml_docs.cons('quick')
    preamble, optlang, main = ml_docs.PREAMBLES[pre]
    ctx = ml_docs.Ctx(C, 1, None)
    body = ml_docs.render(seq, [main], ctx, 0, ())
    body = body.replace(' W', '\nÜ W', 2)       # several lines, non-ASCII text in front of words
    tex = preamble + body + '\n'
    words = {w: tex.index(w) for w in ctx.words}
    argv = ['--language', optlang, '--multi-language', '--ml-continue-threshold', str(thresh), '--ml-rule-threshold', str(rthresh),
            '--ml-disable', 'MLD', '--ml-disablecategories', 'MLC', '--disable', 'DIS', '--disablecategories', 'CAT']
    return tex, words, argv, {'pack': '*', 'lang': optlang}, True, thresh


class C14:
    id = 'C14'
    level = 'model_checking'
    chunk = 20
    evals_per_state = 6
    rule = ('states = documents (catalogue forests in a multi-line layout with non-ASCII text; multi-language trees x thresholds), each '
            'reported in 5 output modes and through the server emulation with every word flagged; non-trivial = at least one flagged '
            'word stands behind a construct, so that plain-text offset and LaTeX offset differ')
    assumptions = [
        'the fake proofreader answers like LanguageTool (context excerpt with line breaks blanked); real LanguageTool is not run',
        'in-process driver = real top-level code of shell.py with proofreader.subprocess.run replaced; bound to the CLI and to a real '
        '--as-server process by byte-identical conformance replays',
        'which parts the text is split into is taken from tex2txt (C12 judges the split itself)',
    ]

    def init_worker(self):
        catcheck.init_worker()

    def bounds(self, tier):
        return {'catalogue_docs': 'n <= 2 nodes (n = 2 over the core catalogue in quick)', 'layout': repr(SEP), 'modes': MODES + ['server'],
                'flagging': 'all words at once; one at a time for n = 1', 'multi_language': 'language trees n <= 2 x continue-threshold {0,2} x rule-threshold {0,2}'}

    def cases(self, tier, seed):
        for f in cat.forests(cat.ALL, 1):
            if 'um_remember' in cat.names_in(f):
                continue        # prints a word a second time as generated text: its location is judged by C04
            yield ['doc', f, catcheck.langs_for(f)[0]]
            yield ['doc', f, catcheck.langs_for(f)[0], 'one']
            yield ['doc', f, catcheck.langs_for(f)[0], 'pairs']
        for f in cat.forests(cat.CORE if tier == 'quick' else cat.ALL, 2):
            if 'um_remember' in cat.names_in(f):
                continue
            yield ['doc', f, catcheck.langs_for(f)[0]]
            if tier != 'quick':
                yield ['doc', f, catcheck.langs_for(f)[0], 'pairs']
        C = ml_docs.cons('quick')
        for n in (1, 2):
            for seq in ml_docs.trees(C, n):
                if ml_docs.bad_shape(C, seq, ['x'], False):
                    continue
                for pre in (('opt-en', 'pkg-de') if n == 1 else ('opt-en',)):
                    for t in (0, 2):
                        for r in (0, 2):
                            yield ['ml', seq, pre, t, r]

    def judge(self, case):
        try:
            tex, words, argv, opts, ml, thresh = source_for(case)
        except cat.Invalid as e:
            return {'viol': [], 'out': 'skip', 'nt': False, 'tr': 1, 'cnt': {'skipped:' + e.args[0]: 1}}
        d = core.scratch_dir()
        with open(os.path.join(d, 'd.tex'), 'w', encoding='utf-8') as f:
            f.write(tex)
        o = impl.run_filter(tex, dict(opts, char=True), ml=ml, thresh=thresh)
        if o.kind != 'ok':
            return {'viol': [], 'out': 'filter: ' + o.kind, 'nt': False, 'tr': 1, 'cnt': {'filter returned no result (C07 judges)': 1}}
        parts = [(l, p[0]) for l in o.result for p in o.result[l]] if ml else [(opts['lang'], o.result[0])]
        parts = [(l, t) for l, t in parts if t.strip()]
        flagged = [(words[m.group(0)], m.group(0)) for l, t in parts for m in WORD.finditer(t) if m.group(0) in words]
        flagged = [(off, 4, w) for off, w in flagged]
        one = len(case) > 3 and case[3] == 'one' and not ml
        pairs = (len(case) > 3 and case[3] == 'pairs') or (ml and case[3] == 2)
        runs = [('all', answer_all)] if not one else [('one%d' % k, answer_one(k)) for k in range(len(flagged))]
        pflag = []
        if pairs:
            for l, t in parts:
                for a, n, w1, w2 in pair_spans(t):
                    if w1 in words and w2 in words and words[w2] > words[w1]:
                        pflag.append((words[w1], words[w2] + 4 - words[w1], '%s-%s' % (w1, w2)))
                    else:
                        pflag = None
                        break
                if pflag is None:
                    break
            runs = [('pairs', answer_pairs)] if pflag else []
            tflag = []
            for l, t in parts:
                for a, n, w in tail_spans(t):
                    if w in words and tex[words[w]:words[w] + 6] == w + ' \u00e4':
                        tflag.append((words[w], 6, w + '+'))
                    else:
                        tflag = None
                        break
                if tflag is None:
                    break
            if tflag:
                runs.append(('tail', answer_tail))
        viol = []
        tag = 'ml' if ml else 'doc'
        outs = []
        for rname, ans in runs:
            exp = sorted(pflag) if rname == 'pairs' else sorted(tflag) if rname == 'tail' else sorted(flagged) if not one else [flagged[int(rname[3:])]]
            if one:
                ans.seen = 0
            try:
                sess = shell.Session(argv + ['d.tex'], ans, cwd=d)
            except shell.ShellExit as e:
                viol.append({'clause': 'shell starts', 'sig': 'C14:startup', 'detail': {'argv': argv, 'stderr': e.stderr}})
                break
            det = {'source': tex, 'argv': argv, 'expected(offset,word)': exp}
            for mode in MODES:
                sess.cmdline.output = mode
                sess.calls = []
                if one:
                    ans.seen = 0
                out, err, code, exc = sess.report()
                outs.append(core.h64(out))
                if code is not None or exc:
                    viol.append({'clause': 'report is written', 'sig': 'C14:%s:no-report:%s' % (mode, exc or code),
                                 'detail': dict(det, stderr=err[-300:], exc=exc)})
                    continue
                v = self.judge_report(mode, out, tex, exp)
                if v:
                    viol.append({'clause': v[0], 'sig': 'C14:%s:%s:%s' % (mode, v[1], tag), 'detail': dict(det, report=out[:1500], problem=v[2])})
                if mode == 'plain' and ml:
                    v = self.judge_calls(sess.calls, parts, case[4])
                    if v:
                        viol.append({'clause': 'each part is submitted under its own language code with the configured rule options',
                                     'sig': 'C14:calls:' + v[0], 'detail': dict(det, calls=[(c, t) for c, t in sess.calls], parts=parts, problem=v[1])})
            # server emulation; for multi-language documents the server is started with ANOTHER --language than the
            # request names: the language field of the request decides
            if one:
                ans.seen = 0
            if ml:
                other = 'ru-RU' if opts['lang'] != 'ru-RU' else 'en-GB'
                srv_argv = ['--language', other] + argv[2:] + ['--lt-options', '~--disable LTO --disablecategories LTC', 'd.tex']
                sess = shell.Session(srv_argv, ans, cwd=d)
            sess.calls = []
            requ = {'language': [opts['lang']], 'text': [tex]}
            if ml:
                requ.update({'disabledRules': ['RQD'], 'disabledCategories': ['RQC']})      # rule options come from the request
            val, err, code, exc = sess.request(requ)
            if ml and val is not None:
                v = self.judge_calls(sess.calls, parts, case[4], 'RQD', 'RQC')
                if v:
                    viol.append({'clause': 'server: each part is submitted under its own language code (the request names the main language)',
                                 'sig': 'C14:server:calls:' + v[0], 'detail': dict(det, calls=[(c, t) for c, t in sess.calls], parts=parts, problem=v[1])})
            if ml and val is not None:
                # a second request to the same server, without rule fields: the configured options apply again,
                # exactly as for the same request sent to a fresh server
                requ2 = {'language': [opts['lang']], 'text': [tex]}
                sess.calls = []
                val2 = sess.request(requ2)[0]
                fresh = shell.Session(srv_argv, ans, cwd=d)
                val3 = fresh.request(requ2)[0]
                if [c for c, t in sess.calls] != [c for c, t in fresh.calls] or val2 != val3:
                    viol.append({'clause': 'server: every request is submitted with the configured rule options (no effect of earlier requests)',
                                 'sig': 'C14:server:second-request', 'detail': dict(det, after_first=[c for c, t in sess.calls],
                                                                                   fresh_server=[c for c, t in fresh.calls])})
                elif not any('LTO' in c for c, t in fresh.calls):
                    viol.append({'clause': 'server: options from --lt-options reach the proofreader', 'sig': 'C14:server:lt-options',
                                 'detail': dict(det, fresh_server=[c for c, t in fresh.calls])})
            if val is None:
                viol.append({'clause': 'server answers', 'sig': 'C14:server:no-answer', 'detail': dict(det, stderr=err[-300:], exc=exc)})
            else:
                got = [(m.get('offset'), m.get('length'), m.get('message')) for m in val['matches']]
                want = [(o_, n_, 'flag ' + w) for o_, n_, w in exp]
                if got != want:
                    viol.append({'clause': 'server answer carries LaTeX offset and length of each flagged word, ordered',
                                 'sig': 'C14:server:location:' + tag, 'detail': dict(det, got=got, expected=want)})
        return {'viol': viol[:3], 'out': outs, 'nt': bool(flagged) and bool(runs) and (ml or tex != parts[0][1]), 'tr': 1,
                'cnt': {'evaluations': len(flagged) * 6}}

    def judge_report(self, mode, out, tex, exp):
        """exp: sorted list of (offset, length, label) -> None or (clause, kind, detail)"""
        want = []
        for off, n, w in exp:
            lin, col = reports.line_col(tex, off)
            elin, ecol = reports.line_col(tex, off + n - 1)
            want.append({'offset': off, 'length': n, 'word': w, 'line': lin, 'col': col, 'eline': elin, 'ecol': ecol, 'text': tex[off:off + n]})
        if mode == 'plain':
            got = reports.parse_plain(out)
            if [(g['line'], g['column'], g.get('message')) for g in got] != [(x['line'], x['col'], 'flag ' + x['word']) for x in want]:
                return ('text report names line and column of each flagged word, ordered by position', 'location',
                        {'got': [(g['line'], g['column'], g.get('message')) for g in got], 'expected': [(x['line'], x['col'], x['word']) for x in want]})
            for g, x in zip(got, want):
                if '-' not in x['word'] and '+' not in x['word'] and g.get('marked') != x['word']:
                    return ('the excerpt shown with a message marks the flagged word', 'excerpt', {'entry': g, 'word': x['word']})
        elif mode == 'json':
            got = reports.parse_json(out)
            g2 = [(m['offset'], m['length'], m['message']) for m in got]
            if g2 != [(x['offset'], x['length'], 'flag ' + x['word']) for x in want]:
                return ('JSON carries offset and length of each flagged word, ordered', 'location', {'got': g2, 'expected': [(x['offset'], x['length'], x['word']) for x in want]})
            for m, x in zip(got, want):
                p = m.get('priv', {})
                e = {'fromy': x['line'] - 1, 'fromx': x['col'] - 1, 'toy': x['eline'] - 1, 'tox': x['ecol']}
                if p != e:
                    return ('JSON priv.fromy/fromx/toy/tox consistent with the location', 'priv', {'got': p, 'expected': e, 'word': x['word']})
        elif mode in ('xml', 'xml-b'):
            got = reports.parse_xml(out)
            exp2 = []
            for x in want:
                nl = tex.rfind('\n', 0, x['offset']) + 1
                end = x['offset'] + x['length'] - 1
                nl2 = tex.rfind('\n', 0, end) + 1
                if mode == 'xml-b':
                    fx = len(tex[nl:x['offset']].encode('utf-8'))
                    tx = len(tex[nl2:end + 1].encode('utf-8'))
                else:
                    fx, tx = x['offset'] - nl, end - nl2 + 1
                exp2.append((str(x['line'] - 1), str(fx), str(x['eline'] - 1), str(tx), 'flag ' + x['word']))
            g2 = [(g.get('fromy'), g.get('fromx'), g.get('toy'), g.get('tox'), g.get('msg')) for g in got]
            if g2 != exp2:
                return ('XML fromy/fromx/toy/tox of each flagged word (bytes for xml-b), ordered', 'location', {'got': g2, 'expected': exp2})
            for g, x in zip(got, want):
                # the excerpt: context / contextoffset / errorlength select the flagged word (in bytes for xml-b)
                if '-' in x['word'] or '+' in x['word'] or 'context' not in g:
                    continue
                try:
                    co, el = int(g['contextoffset']), int(g['errorlength'])
                    if mode == 'xml-b':
                        marked = g['context'].encode('utf-8')[co:co + el].decode('utf-8', 'replace')
                    else:
                        marked = g['context'][co:co + el]
                except (KeyError, ValueError):
                    marked = None
                if marked != x['word']:
                    return ('the excerpt of an XML message marks the flagged word (contextoffset / errorlength)', 'excerpt',
                            {'entry': g, 'word': x['word'], 'marked': marked})
        elif mode == 'html':
            p = reports.parse_html(out)
            hl = [(reports.html_text(h['title']), reports.html_text(h['text'])) for h in p.highlights if h['title']]
            # a highlight crossing a line break is split into one span per line, all with the same title
            by = []
            for title, text in hl:
                m = re.search(r'flag (\S+)', title or '')
                key = m.group(1) if m else None
                if by and by[-1][0] == key and by[-1][2] == title:
                    by[-1][1] += '\n' + text
                else:
                    by.append([key, text, title])
            got = sorted((k, t) for k, t, _ in by)
            if got != sorted((x['word'], x['text'].replace('\t', ' ' * 8)) for x in want):      # a tab is shown as 8 blanks
                return ('HTML highlights exactly the flagged text, each match once', 'highlight', {'got': got, 'expected': [(x['word'], x['text']) for x in want]})
            for key, text, title in by:
                lm = re.search(r'Line (\d+)', title)
                x = next(x for x in want if x['word'] == key)
                if not lm or int(lm.group(1)) != x['line']:
                    return ('HTML title names the line of the flagged word', 'line', {'title': title, 'expected_line': x['line']})
        return None

    def judge_calls(self, calls, parts, rthresh, dis='DIS', cat='CAT'):
        if [t for c, t in calls] != [t for l, t in parts]:
            return ('texts', 'submitted texts differ from the parts')
        for (cmd, t), (lang, _) in zip(calls, parts):
            def opt(name):
                return cmd[cmd.index(name) + 1] if name in cmd else None
            short = len(t.split()) <= rthresh
            if opt('--language') != lang:
                return ('language', 'part %r submitted as %r, labelled %r' % (t[:30], opt('--language'), lang))
            if opt('--disable') != (dis + ',MLD' if short else dis) or opt('--disablecategories') != (cat + ',MLC' if short else cat):
                return ('rule-options', 'part %r (%d words, threshold %d): --disable %r --disablecategories %r' % (
                    t[:30], len(t.split()), rthresh, opt('--disable'), opt('--disablecategories')))
        return None

    # ---- conformance: CLI and real server
    def conformance_picks(self, seed):
        picks = []
        k = 97 + seed % 11
        for i, case in enumerate(self.cases('quick', seed)):
            if i % k == seed % k and not (case[0] == 'doc' and len(case) > 3):
                picks.append(case)
        picks = picks[:24]
        return [c + ['+server'] if i < 4 else c for i, c in enumerate(picks)]

    def finish(self, ctx):
        self.init_worker()
        n = 0
        viol = []
        for case in self.conformance_picks(ctx['seed']):
            k, vs = self.conformance_one(case)
            n += k
            viol += [(case, v) for v in vs]
        return {'conformance_replays': n, 'viol': viol}

    def conformance_one(self, case):
        with_server = case[-1] == '+server'
        if with_server:
            case = case[:-1]
        d = os.path.join(core.scratch_dir(), 'cli')
        try:
            tex, words, argv, opts, ml, thresh = source_for(case)
        except cat.Invalid:
            return 0, []
        os.makedirs(d, exist_ok=True)
        with open(os.path.join(d, 'd.tex'), 'w', encoding='utf-8') as f:
            f.write(tex)
        sess = shell.Session(argv + ['d.tex'], answer_all, cwd=d)
        viol = []
        n = 0
        for mode in MODES:
            sess.cmdline.output = mode
            sess.calls = []
            out, err, code, exc = sess.report()
            answers = {t: answer_all(t, None) for c, t in sess.calls}
            rc, cout, cerr, args = shell.run_cli(argv + ['--output', mode, 'd.tex'], {}, answers, shell.lt_answer([]), d)
            n += 1
            if rc != 0 or cout.decode('utf-8') != out:
                viol.append({'clause': 'in-process report is byte-identical to the CLI (conformance)', 'sig': 'C14:conformance:' + mode,
                             'detail': {'argv': argv, 'source': tex, 'rc': rc, 'cli': cout.decode('utf-8', 'replace')[:800],
                                        'in_process': (out or '')[:800], 'stderr': cerr[-300:]}})
        if with_server:
            sess.calls = []
            val, err, code, exc = sess.request({'language': [opts['lang']], 'text': [tex]})
            answers = {t: answer_all(t, None) for c, t in sess.calls}
            got = self.real_server(argv, tex, opts['lang'], answers, d)
            n += 1
            if got != val:
                viol.append({'clause': 'in-process server answer equals the answer of a real --as-server process',
                             'sig': 'C14:conformance:server', 'detail': {'argv': argv, 'source': tex, 'real': got, 'in_process': val}})
        return n, viol

    def real_server(self, argv, tex, lang, answers, d):
        s = socket.socket()
        s.bind(('localhost', 0))
        port = s.getsockname()[1]
        s.close()
        lt = os.path.join(d, 'fakelt.sh')
        with open(lt, 'w') as f:
            f.write(shell.FAKE_LT)
        os.chmod(lt, 0o755)
        for old in os.listdir(d):
            if old.startswith('ans.'):
                os.unlink(os.path.join(d, old))
        for plain, ans in answers.items():
            with open(os.path.join(d, 'ans.' + shell.sha16(plain)), 'wb') as f:
                f.write(ans)
        with open(os.path.join(d, 'ans.default'), 'wb') as f:
            f.write(shell.lt_answer([]))
        p = subprocess.Popen([sys.executable, '-m', 'yalafi.shell', '--no-config', '--lt-command', lt] + argv + ['--as-server', str(port)],
                             cwd=d, stdout=subprocess.DEVNULL, stderr=subprocess.DEVNULL, env=dict(os.environ, PYTHONPATH=core.REPO))
        try:
            data = urllib.parse.urlencode({'language': lang, 'text': tex}).encode('ascii')
            for attempt in range(300):
                try:
                    with urllib.request.urlopen('http://localhost:%d/v2/check' % port, data=data, timeout=60) as r:
                        return json.loads(r.read().decode('ascii'))
                except OSError:
                    if p.poll() is not None:
                        break
                    time.sleep(0.1)
            raise core.HarnessError('the real --as-server process did not answer (not a property violation)')
        finally:
            p.terminate()
            p.wait()

    def explain(self, case):
        tex, words, argv, opts, ml, thresh = source_for(case)
        return 'source %r\nargv %r\nword offsets %r' % (tex, argv, words)


CHECK = C14()
