"""C06 - plain prose is a fixed point; special sequences follow the table.

All strings up to length L over a 16-symbol alphabet (and up to 3 over the
complete table) are filtered; (plain, charmap) must equal the output of a
longest-match transducer written from the table in the property statement."""
import itertools

from .. import impl

# the documented table (property statement / README), not parameters.py
TABLE = [('---', '\u2014'), ('--', '\u2013'), ('``', '\u201c'), ("''", '\u201d'),
         ('~', '\u00a0'), ('\\,', '\u202f'),
         ('\\%', '%'), ('\\&', '&'), ('\\$', '$'), ('\\#', '#'), ('\\_', '_'),
         ('\\{', '{'), ('\\}', '}'), ('\\\\', ' '), ('&', ' ')]
TABLE.sort(key=lambda p: -len(p[0]))
WS_VALUED = {'~', '\\,', '\\\\', '&'}

ALPHA = ['a', 'b', ' ', '\n', '.', '-', '`', "'", '~', '\\,', '\\%', '\\&',
         '\\\\', '&', '\\{', '\\_']
ALPHA_FULL = ALPHA + ['\\$', '\\#', '\\}']


def model(s):
    out = []
    pos = []
    spans = []
    i = 0
    while i < len(s):
        for k, v in TABLE:
            if s.startswith(k, i):
                out.append(v)
                pos.append(i + 1)
                spans.append((i, i + len(k), k))
                i += len(k)
                break
        else:
            out.append(s[i])
            pos.append(i + 1)
            i += 1
    return ''.join(out), pos, spans


def excluded(s, spans):
    """a white-space-valued sequence on an otherwise blank line (C05's domain)"""
    start = 0
    for ln in s.split('\n'):
        a, b = start, start + len(ln)
        start = b + 1
        rest = list(s[a:b])
        has = False
        for x, y, k in spans:
            if a <= x < b and k in WS_VALUED:
                has = True
                for j in range(x, min(y, b)):
                    rest[j - a] = ' '
        if has and not ''.join(rest).strip():
            return True
    return False


class C06:
    id = 'C06'
    level = 'model_checking'
    design_ref = 'DESIGN.md section 3, C06'
    chunk = 400
    rule = ('states = all symbol strings up to the bound (x languages); non-trivial = string not excluded by '
            'the blank-line rule AND containing at least one special sequence, so that output differs from input')
    assumptions = [
        'the scanner decides at an offset from the suffix at that offset only (longest match), so length '
        '2 x longest sequence + context covers the interactions; longer strings are not sampled',
        'letters a, b and the full stop stand for all characters without LaTeX meaning',
        'German "-shorthands are outside this alphabet (no double quote)',
    ]

    def bounds(self, tier):
        if tier == 'quick':
            return {'alphabet': ALPHA, 'max_len': 4, 'langs_full': ['en'], 'langs_len3': ['de', 'ru'],
                    'full_table_max_len': 3, 'option_sets_nosp_seqs_max_len': 3}
        return {'alphabet': ALPHA, 'max_len': 5, 'langs_full': ['en'], 'langs_len4': ['de', 'ru'],
                'full_table_max_len': 4, 'option_sets_nosp_seqs_max_len': 4}

    def cases(self, tier, seed):
        L = 4 if tier == 'quick' else 5
        for k in range(L + 1):
            for c in itertools.product(ALPHA, repeat=k):
                yield [''.join(c), 'en']
        for lang in ('de', 'ru'):
            for k in range(L):
                for c in itertools.product(ALPHA, repeat=k):
                    yield [''.join(c), lang]
        # other option sets must not change anything for prose; 'x' is the dummy the filter uses to
        # switch off its magic comments with --nosp, so it joins the alphabet here
        Ln = 3 if tier == 'quick' else 4
        for k in range(1, Ln + 1):
            for c in itertools.product(ALPHA + ['x'], repeat=k):
                yield [''.join(c), 'en', 'nosp' if 'x' in c or k < Ln else 'seqs']
        Lf = 3 if tier == 'quick' else 4
        new = set(ALPHA_FULL) - set(ALPHA)
        for k in range(1, Lf + 1):
            for c in itertools.product(ALPHA_FULL, repeat=k):
                if new.intersection(c):
                    yield [''.join(c), 'en']

    def judge(self, case):
        s, lang = case[:2]
        exp_txt, exp_pos, spans = model(s)
        if excluded(s, spans):
            return {'viol': [], 'out': 'excluded', 'nt': False, 'tr': 1, 'cnt': {'excluded_by_blank_line_rule': 1}}
        opts = {'pack': '', 'lang': lang}
        if len(case) > 2:
            opts.update({'nosp': {'nosp': True}, 'seqs': {'seqs': True, 'pack': '*'}}[case[2]])
        o = impl.run_filter(s, opts)
        viol = []
        if o.kind != 'ok':
            viol.append({'clause': 'returns', 'sig': 'C06:no-result:' + o.kind, 'detail': o.info})
            return {'viol': viol, 'out': o.info, 'nt': True, 'tr': 1}
        txt, pos = o.result
        if txt != exp_txt:
            # signature: the first sequence at which model and output part
            i = next((i for i in range(min(len(txt), len(exp_txt))) if txt[i] != exp_txt[i]), min(len(txt), len(exp_txt)))
            sq = next((k for a, b, k in spans if a < (exp_pos[i] if i < len(exp_pos) else len(s) + 1) <= b), 'plain')
            viol.append({'clause': 'text equals table transducer', 'sig': 'C06:text:' + sq,
                         'detail': {'source': s, 'got': txt, 'expected': exp_txt}})
        elif list(pos) != exp_pos:
            i = next(i for i in range(len(pos)) if pos[i] != exp_pos[i])
            sq = next((k for a, b, k in spans if a < exp_pos[i] <= b), 'plain')
            viol.append({'clause': 'position of first character of each sequence', 'sig': 'C06:pos:' + sq,
                         'detail': {'source': s, 'got': list(pos), 'expected': exp_pos}})
        if o.stderr:
            viol.append({'clause': 'no diagnostic on prose', 'sig': 'C06:stderr', 'detail': o.stderr[:200]})
        return {'viol': viol, 'out': [txt, list(pos)], 'nt': bool(spans), 'tr': 1}

    def explain(self, case):
        s, lang = case[:2]
        e = model(s)
        return 'source %r lang=%s\nmodel  text=%r pos=%r' % (s, lang, e[0], e[1])


CHECK = C06()
