"""C13 - phrase replacement keeps text and position map consistent.

utils.replace_phrases is driven directly with all texts up to length L over
a small alphabet, a non-monotonic injective position list and a menu of rule
lists; the result must equal a matcher written without `re`.  A second part
runs the same rules end to end through tex2txt (single and multi-language)."""
import itertools

from .. import impl

ALPHA_Q = ['a', 'b', ' ', '\n', '.', '1']
ALPHA_T = ALPHA_Q + ['\t']

RULES = [
    ['a & b'],                      # equal length
    ['a b & c'],                    # two-word phrase, shorter replacement
    ['a b & '],                     # empty right-hand side
    ['a. & xyz'],                   # ends with non-letter, longer replacement, regex metacharacter
    ['b & a # c', 'a & bb'],        # comment; second rule matches the first one's output
    ['# only comment', ' & x', 'a & a a'],   # ignored lines; replacement containing the phrase
    ['a   b&c & d'],                # '&' glued to a word is part of the word
    ['.a & q'],                     # starts with non-letter
    ['a a & a'],                    # overlapping candidates
    ['1 a & z'],                    # starts with digit (no boundary required in front)
    ['a'],                          # no '&': whole line is the phrase, empty replacement
    ['b a &'],                      # '&' last
    ['a b a & X'],                  # three words, overlapping at the shared word
    ['a & aaa', 'aaa b & Y'],       # growth then a rule using inserted characters
    ['a & \\b.', 'b & \\1\\n'],       # backslashes in the replacement are literal text
    ['a. b'],                       # no '&', last word ends with a letter, the word before does not
    ['a b.'],                       # no '&', the other way round
]


def isword(c):
    return c.isalnum() or c == '_'


def parse_rule(line):
    i = line.find('#')
    if i >= 0:
        line = line[:i]
    toks = line.split()
    lhs = []
    rhs = ''
    for k, t in enumerate(toks):
        if t == '&':
            rhs = ' '.join(toks[k + 1:])
            break
        lhs.append(t)
    return lhs, rhs


def match_at(text, i, lhs):
    j = i
    for k, w in enumerate(lhs):
        if k > 0:
            s = j
            while j < len(text) and text[j] in ' \t':
                j += 1
            if j < len(text) and text[j] == '\n':
                j += 1
                while j < len(text) and text[j] in ' \t':
                    j += 1
            elif j == s:
                return None
        if text[j:j + len(w)] != w:
            return None
        j += len(w)
    return j


def model(text, pos, lines):
    for line in lines:
        lhs, rhs = parse_rule(line)
        if not lhs:
            continue
        first = lhs[0][0]
        last = lhs[-1][-1]
        o_t = ''
        o_p = []
        i = 0
        lastend = 0
        while i <= len(text) - 1:
            j = match_at(text, i, lhs)
            ok = j is not None and j > i
            if ok and first.isalpha() and i > 0 and isword(text[i - 1]):
                ok = False
            if ok and last.isalpha() and j < len(text) and isword(text[j]):
                ok = False
            if not ok:
                i += 1
                continue
            o_t += text[lastend:i] + rhs
            o_p += pos[lastend:i]
            m = j - i
            r = len(rhs)
            o_p += pos[i:i + r] if r <= m else pos[i:j] + [pos[j - 1]] * (r - m)
            lastend = j
            i = j
        text = o_t + text[lastend:]
        pos = o_p + pos[lastend:]
    return text, pos


def poslist(n):
    return [(7 * i + 3) % 101 for i in range(n)]


# end-to-end documents (word forms a, b so that the same rules apply)
E2E_DOCS = [
    'a b\n', 'x a\nb y\n', 'a\n\nb\n', 'a \\label{k} b a.\n', '\\textbf{a} b\n', 'a\\footnote{a b} b\n',
    'a. b $x$ a b\n', 'a % c\n b\n', '{a} b a a a\n', 'a~b a\\,b a b.\n',
]
E2E_ML = [
    '\\usepackage{babel}\na b \\foreignlanguage{german}{a b und a b noch a b} a b\n',
    '\\usepackage{babel}\na \\foreignlanguage{german}{b} a b\n',
    '\\usepackage{babel}\na b \\selectlanguage{german} a b\n',
]


class C13:
    id = 'C13'
    level = 'model_checking'
    design_ref = 'DESIGN.md section 3, C13'
    chunk = 300
    evals_per_state = len(RULES)
    rule = ('states = all texts up to the bound (each judged under %d rule lists) plus end-to-end documents; '
            'non-trivial = at least one rule list changes the text' % len(RULES))
    assumptions = [
        'letters a, b stand for all letters, 1 for digits, the full stop for punctuation/regex metacharacters',
        'the position list (7i+3) mod 101 stands for arbitrary injective lists: the function never inspects values',
    ]

    def bounds(self, tier):
        return {'alphabet': ALPHA_Q if tier == 'quick' else ALPHA_T, 'max_len': 7 if tier == 'quick' else 8,
                'rule_lists': RULES, 'end_to_end_documents': len(E2E_DOCS) + len(E2E_ML)}

    def cases(self, tier, seed):
        alpha, L = (ALPHA_Q, 7) if tier == 'quick' else (ALPHA_T, 8)
        for k in range(L + 1):
            for c in itertools.product(alpha, repeat=k):
                yield ['t', ''.join(c)]
        for d in E2E_DOCS:
            yield ['e', d]
        for d in E2E_ML:
            yield ['m', d]
        # the list as the command-line tools read it from a file, used for two documents in a row
        for d in E2E_DOCS:
            yield ['f', d]

    def judge(self, case):
        kind, text = case
        if kind == 't':
            return self.judge_text(text)
        return self.judge_e2e(kind, text)

    def judge_text(self, text):
        from yalafi import utils
        pos = poslist(len(text))
        viol = []
        changed = 0
        outs = []
        for ri, r in enumerate(RULES):
            exp = model(text, list(pos), r)
            try:
                got = utils.replace_phrases(text, list(pos), list(r))
            except Exception as e:
                viol.append({'clause': 'returns', 'sig': 'C13:exception:%s' % type(e).__name__,
                             'detail': {'text': text, 'rules': r, 'error': repr(e)}})
                continue
            got = (got[0], list(got[1]))
            outs.append(got[0])
            if len(got[0]) != len(got[1]):
                viol.append({'clause': 'equal lengths', 'sig': 'C13:length:rule%d' % ri,
                             'detail': {'text': text, 'rules': r, 'got': got}})
            elif got[0] != exp[0]:
                viol.append({'clause': 'text equals matcher model', 'sig': 'C13:text:rule%d' % ri,
                             'detail': {'text': text, 'rules': r, 'got': got[0], 'expected': exp[0]}})
            elif got[1] != exp[1]:
                viol.append({'clause': 'positions equal matcher model', 'sig': 'C13:pos:rule%d' % ri,
                             'detail': {'text': text, 'rules': r, 'got': got[1], 'expected': exp[1]}})
            if exp[0] != text:
                changed += 1
        return {'viol': viol, 'out': outs, 'nt': changed > 0, 'tr': 1}

    def judge_file(self, doc):
        import os
        from yalafi import tex2txt
        from .. import core
        viol = []
        outs = []
        for ri, r in enumerate(RULES):
            fn = os.path.join(core.scratch_dir(), 'repl13.txt')
            with open(fn, 'w') as f:
                f.writelines(l + '\n' for l in r)
            lst = tex2txt.read_replacements(fn, encoding='utf-8')
            base = impl.run_filter(doc, {'pack': '*', 'lang': 'en'})
            if base.kind != 'ok':
                continue
            exp = model(base.result[0], list(base.result[1]), r)
            for nr in (1, 2):
                got = impl.run_filter(doc, {'pack': '*', 'lang': 'en', 'repl': lst})
                g = (got.result[0], list(got.result[1])) if got.kind == 'ok' else None
                outs.append(g and g[0])
                if g != (exp[0], exp[1]):
                    viol.append({'clause': 'a replacement list read from a file is applied to every document it is used for',
                                 'sig': 'C13:file-list:use%d' % nr, 'detail': {'doc': doc, 'rules': r, 'use': nr, 'got': g, 'expected': exp}})
                    break
        return {'viol': viol[:2], 'out': outs, 'nt': True, 'tr': 1}

    def judge_e2e(self, kind, doc):
        if kind == 'f':
            return self.judge_file(doc)
        viol = []
        outs = []
        for ri, r in enumerate(RULES):
            lines = [l + '\n' for l in r]
            if kind == 'e':
                base = impl.run_filter(doc, {'pack': '*', 'lang': 'en'})
                got = impl.run_filter(doc, {'pack': '*', 'lang': 'en', 'repl': lines})
                if base.kind != 'ok' or got.kind != 'ok':
                    viol.append({'clause': 'returns', 'sig': 'C13:e2e:no-result', 'detail': [base.info, got.info]})
                    continue
                exp = model(base.result[0], list(base.result[1]), r)
                g = (got.result[0], list(got.result[1]))
                outs.append(g[0])
                if g != (exp[0], exp[1]):
                    viol.append({'clause': 'tex2txt with repl == model applied to tex2txt without',
                                 'sig': 'C13:e2e:rule%d' % ri, 'detail': {'doc': doc, 'rules': r, 'got': g, 'expected': exp}})
            else:
                base = impl.run_filter(doc, {'pack': '*', 'lang': 'en-GB'}, ml=True)
                got = impl.run_filter(doc, {'pack': '*', 'lang': 'en-GB', 'repl': lines}, ml=True)
                if base.kind != 'ok' or got.kind != 'ok':
                    viol.append({'clause': 'returns', 'sig': 'C13:e2e:no-result', 'detail': [base.info, got.info]})
                    continue
                for lang in base.result:
                    for pi, (txt, nums) in enumerate(base.result[lang]):
                        g = got.result.get(lang, [])[pi] if pi < len(got.result.get(lang, [])) else None
                        exp = model(txt, list(nums), r) if lang == 'en-GB' else (txt, list(nums))
                        outs.append(g and g[0])
                        if g is None or (g[0], list(g[1])) != (exp[0], exp[1]):
                            viol.append({'clause': 'multi-language: only main-language parts are rewritten, per model',
                                         'sig': 'C13:e2e-ml:rule%d:%s' % (ri, 'main' if lang == 'en-GB' else 'foreign'),
                                         'detail': {'doc': doc, 'rules': r, 'lang': lang, 'got': g, 'expected': exp}})
        return {'viol': viol, 'out': outs, 'nt': True, 'tr': 1}

    def explain(self, case):
        return 'case %r; position list (7i+3) mod 101; rule lists: %r' % (case, RULES)


CHECK = C13()
