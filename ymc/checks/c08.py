"""C08 - LaTeX problems yield the full error mark at the right place, and only then
(fault enumeration).

deviation 0: well-formed catalogue documents -> no mark, silent stderr.
deviation 1: one fault of the kinds named in the statement, in every context,
with 0..16 characters behind it -> diagnostic with line/column of the fault,
complete mark whose first character maps there, surrounding words preserved."""
import re

from .. import catalogue as cat
from .. import catcheck, impl

MARK = 'LATEXXXERROR'

# (name, text, offset of the reported position inside the text, what the faulty construct swallows)
FAULTS = [
    ('open$', '$x ', 0, 'par'),
    ('open\\(', '\\(x ', 0, 'par'),
    ('open\\[', '\\[x ', 0, 'par'),
    ('open$$', '$$x ', 0, 'par'),
    ('openequ', '\\begin{equation}x ', 0, 'par'),
    ('verbatim', '\\begin{verbatim} ', 0, 'none'),
    ('verb', '\\verb|x ', 0, 'line'),
    ('verb-eot', '\\verb', 0, 'line'),
    ('skip', '%%% LT-SKIP-BEGIN\n', 0, 'none'),
    ('accent', "\\'1 ", 0, 'none'),
    ('ltinput', '\\LTinput{/nonexistent/f.tex} ', 0, 'none'),
    ('ltinput-undecodable', '\\LTinput{ymcbad.tex} ', 0, 'none'),
    ('openarg', '\\footnote{', 9, 'none'),
    ('openarg2', '\\LTalter{x}{', 11, 'none'),
    ('openopt', '\\section[', 8, 'none'),
    ('openopt2', '\\cite[', 5, 'none'),
]
TOP_ONLY = {'openarg', 'openarg2', 'openopt', 'openopt2', 'verb-eot'}
# context: (name, text before the slot, text after the slot)
CONTEXTS = [
    ('top', '', ''),
    ('unk1', '\\xxx{', '}'),
    ('textbf', '\\textbf{', '}'),
    ('group', '{', '}'),
    ('item', '\\begin{itemize}\\item ', '\\end{itemize}'),
    ('center', '\\begin{center}', '\\end{center}'),
    ('footnote', '\\footnote{', '}'),
    ('section', '\\section{', '}'),
    ('um', '\\newcommand{\\mq}[1]{<#1>}\\mq{', '}'),
    # a file read before, which itself loads a package (nested text buffers): the position must still refer to the main text
    ('after-ltinput', '\\LTinput{ymcnest.tex}\\LTinput{ymcnest2.tex} ', ''),
    # the preamble lines the README recommends for LaTeX's sake: the filter must not take them for definitions
    ('readme-preamble', '\\newcommand{\\LTadd}[1]{}\\newcommand{\\LTalter}[2]{#1}\\newcommand{\\LTskip}[1]{#1}\\newcommand{\\LTinput}[1]{} ', ''),
]
TAILTXT = ' Wtaq Wtbq Wtcq.'
CONFIGS = {'std': {'pack': '*', 'lang': 'en'}, 'seqs': {'pack': '*', 'lang': 'de', 'seqs': True}, 'nosp': {'pack': '*', 'lang': 'en', 'nosp': True}}
# well-formed texts under further option sets (no mark, no diagnostic expected)
OK_RAW = ['The box is here, six taxis next exit.', 'A $x$ fox \\[ax = b.\\] x', 'Text\\footnote{x}, \\LTadd{x} \\LTskip{y} x\n%%% LT-SKIP-BEGIN\nx\n%%% LT-SKIP-END\nx',
          'x\\verb|x| \\begin{verbatim}x\\end{verbatim} x', 'Ein "a "` x "\' "- "= x']
OK_CFGS = [{'pack': '*', 'lang': 'en', 'nosp': True}, {'pack': '', 'lang': 'de', 'nosp': True, 'seqs': True}, {'pack': '*', 'lang': 'ru'},
           {'pack': '*', 'lang': 'en', 'extr': 'footnote'}, {'pack': '*', 'lang': 'de', 'unkn': True}]


def build(case):
    _, fi, ci, tail, sep, final_nl, cfg = case
    name, ftxt, doff, swallow = FAULTS[fi]
    cname, cpre, cpost = CONTEXTS[ci]
    s = 'Waaq' + sep + cpre + 'Wabq' + sep
    fo = len(s)
    s += ftxt + TAILTXT[:tail]
    if cname != 'top':
        s += cpost + ' Wacq'
        s += '\n\nWadq'
    if final_nl:
        s += '\n'
    return s, fo


def offset_of(src, line, col):
    lines = src.split('\n')
    return sum(len(x) + 1 for x in lines[:line - 1]) + col - 1


class C08:
    id = 'C08'
    level = 'fault_enumeration'
    chunk = 150
    rule = ('cases = well-formed catalogue documents (0 deviations) and documents with exactly one injected fault '
            '(fault kind x context x characters behind it x layout x option set); non-trivial = a fault case, or a '
            'well-formed document that contains maths, verbatim material, arguments or skipped regions (constructs that can raise a mark)')
    assumptions = [
        'the fault forms are those named in the statement; argument-open faults are placed where no later closing delimiter exists',
        'for open maths the words up to the end of the paragraph may be swallowed, for \\verb the rest of the line',
    ]
    def init_worker(self):
        catcheck.init_worker()
        with open('ymcnest.tex', 'w') as f:
            f.write('\\usepackage{amsmath}\n\\newcommand{\\nq}{x}\n' + 'padding line\n' * 5)
        with open('ymcbad.tex', 'wb') as f:
            f.write(b'caf\xe9 \xff\xfe binary')
        with open('ymcnest2.tex', 'w') as f:
            f.write('\\LTinput{ymcnest.tex}\n\\usepackage[german]{babel}\n' + 'more padding\n' * 3)

    def bounds(self, tier):
        return {'fault_forms': [f[0] for f in FAULTS], 'contexts': [c[0] for c in CONTEXTS], 'tail_characters': '0..16 (top level), {0,3,6,16} (nested)',
                'layouts': ['blank', 'newline'], 'configs': list(CONFIGS),
                'well_formed': 'catalogue documents with n <= 2 nodes' + (' (n <= 3 over the core, thorough)' if tier != 'quick' else '')}

    def cases(self, tier, seed):
        for fi, f in enumerate(FAULTS):
            for ci, c in enumerate(CONTEXTS):
                if f[0] in TOP_ONLY and c[0] != 'top':
                    continue
                tails = range(0, 17) if c[0] == 'top' else (0, 3, 6, 16)
                if f[0] == 'verb-eot':
                    tails = (0,)        # with text behind it, that text would be a delimiter
                for tail in tails:
                    for sep in (' ', '\n'):
                        for final_nl in ((0,) if f[0] == 'verb-eot' else (0, 1) if c[0] == 'top' else (1,)):
                            for cfg in CONFIGS:
                                if cfg == 'nosp' and (f[0] == 'skip' or c[0] not in ('top', 'readme-preamble', 'footnote')):
                                    continue        # without specials the magic comment is a comment
                                yield ['fault', fi, ci, tail, sep, final_nl, cfg]
        for ti in range(len(OK_RAW)):
            for ci in range(len(OK_CFGS)):
                yield ['okraw', ti, ci]
        if tier == 'quick':
            for n in (1, 2):
                for f in cat.forests(cat.ALL, n):
                    for lang in catcheck.langs_for(f):
                        yield ['ok', f, ' ', lang]
        else:
            for f, sep in catcheck.enum_docs(tier):
                for lang in catcheck.langs_for(f):
                    yield ['ok', f, sep, lang]

    def judge_okraw(self, case):
        src = OK_RAW[case[1]]
        o = impl.run_filter(src, OK_CFGS[case[2]])
        viol = []
        if o.kind != 'ok' or MARK[:6] in o.result[0] or o.stderr:
            viol.append({'clause': 'a well-formed document produces neither mark nor diagnostic', 'sig': 'C08:false-mark:options',
                         'detail': {'source': src, 'options': OK_CFGS[case[2]], 'plain': o.result and o.result[0], 'stderr': o.stderr[:300], 'info': o.info}})
        return {'viol': viol, 'out': [o.result and o.result[0], o.stderr], 'nt': True, 'tr': 1}

    def judge(self, case):
        if case[0] == 'okraw':
            return self.judge_okraw(case)
        if case[0] == 'ok':
            return self.judge_ok(case)
        return self.judge_fault(case)

    def judge_ok(self, case):
        r, o, skip = catcheck.run_case(case[1:])
        if skip:
            return {'viol': [], 'out': 'skip', 'nt': False, 'tr': 1, 'cnt': {'skipped:' + skip: 1}}
        if o.kind != 'ok':
            return {'viol': [{'clause': 'returns', 'sig': 'C08:no-result:' + o.kind, 'detail': o.info}], 'out': o.info, 'nt': True, 'tr': 1}
        viol = []
        names = list(cat.names_in(case[1]))
        if MARK[:6] in o.result[0] or 'LaTeX error' in o.stderr or o.stderr:
            viol.append({'clause': 'a well-formed document produces neither mark nor diagnostic',
                         'sig': 'C08:false-mark:' + '>'.join(names[:2]),
                         'detail': {'source': r.src, 'plain': o.result[0], 'stderr': o.stderr[:300]}})
        nt = any(cat.META[n]['cls'] in ('math', 'verbatim', 'detached', 'gen', 'user', 'gls', 'cref') or n in ('skipregion', 'acute', 'uml', 'cedilla') for n in names)
        return {'viol': viol, 'out': [o.result[0], o.stderr], 'nt': nt, 'tr': 1}

    def judge_fault(self, case):
        _, fi, ci, tail, sep, final_nl, cfg = case
        name, ftxt, doff, swallow = FAULTS[fi]
        src, fo = build(case)
        o = impl.run_filter(src, CONFIGS[cfg])
        tag = name + '@' + CONTEXTS[ci][0]
        if o.kind != 'ok':
            return {'viol': [{'clause': 'returns', 'sig': 'C08:no-result:' + tag, 'detail': {'source': src, 'info': o.info}}],
                    'out': o.info, 'nt': True, 'tr': 1}
        plain, nums = o.result
        nums = list(nums)
        viol = []
        det = {'source': src, 'plain': plain, 'stderr': o.stderr[:300], 'config': cfg}
        diags = re.findall(r'\*\*\* LaTeX error: line (\d+), column (\d+):', o.stderr)
        marks = [m.start() for m in re.finditer(MARK, plain)]
        if not diags:
            viol.append({'clause': 'a diagnostic with line and column is printed', 'sig': 'C08:no-diagnostic:' + name, 'detail': det})
        if not marks:
            part = 'mark-incomplete' if MARK[:5] in plain else 'no-mark'
            viol.append({'clause': 'the complete error mark is in the plain text', 'sig': 'C08:%s:%s' % (part, name), 'detail': det})
        if diags:
            off = offset_of(src, int(diags[0][0]), int(diags[0][1]))
            if off != fo + doff:
                viol.append({'clause': 'diagnostic names line/column of the problem', 'sig': 'C08:diag-position:' + name,
                             'detail': dict(det, reported_offset=off, expected_offset=fo + doff)})
            elif marks and not any(nums[i] == off + 1 for i in marks):
                viol.append({'clause': 'first character of the mark maps to the reported position', 'sig': 'C08:mark-position:' + name,
                             'detail': dict(det, mark_positions=[nums[i] for i in marks], expected=off + 1)})
        # text preserved
        got = cat.WORD_RE.findall(plain)
        allw = [(m.group(0), m.start()) for m in cat.WORD_RE.finditer(src)]
        end_fault = fo + len(ftxt)
        lost_ok = set()
        for w, p in allw:
            if p < fo:
                continue
            if swallow == 'par' and '\n\n' not in src[fo:p]:
                lost_ok.add(w)
            if swallow == 'line' and '\n' not in src[fo:p]:
                lost_ok.add(w)
        missing = [w for w, p in allw if w not in got and w not in lost_ok]
        if missing:
            viol.append({'clause': 'no text beyond the faulty construct is lost', 'sig': 'C08:text-lost:' + tag,
                         'detail': dict(det, missing=missing)})
        order = [w for w in got if w in [x for x, _ in allw]]
        main = [w for w, p in allw if w in got]
        if CONTEXTS[ci][0] not in ('footnote',) and name not in ('openarg',) and order != main:
            viol.append({'clause': 'surviving words stay in order', 'sig': 'C08:order:' + tag, 'detail': det})
        return {'viol': viol[:2], 'out': [plain, nums, o.stderr], 'nt': True, 'tr': 1}

    def explain(self, case):
        if case[0] == 'okraw':
            return 'source %r options %r' % (OK_RAW[case[1]], OK_CFGS[case[2]])
        if case[0] == 'ok':
            return catcheck.explain(case[1:])
        src, fo = build(case)
        o = impl.run_filter(src, CONFIGS[case[6]])
        return 'source %r\nfault %s at offset %d in context %s\nplain %r\nmap %r\nstderr %r' % (
            src, FAULTS[case[1]][0], fo, CONTEXTS[case[2]][0], o.result and o.result[0], o.result and list(o.result[1]), o.stderr)


CHECK = C08()
