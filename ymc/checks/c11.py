"""C11 - displayed equations follow the documented scheme and keep their punctuation.

Equations are trees rows x sections x parts; the reference model is the
rewriting system of README "Parser for maths material" written over the
tree (placeholder / operator word / copied text, rotation at the documented
points).  Per output line the sequence of items must equal the model's."""
import itertools
import re

from .. import impl

DISP = {'en': ['U-U-U', 'V-V-V', 'W-W-W', 'X-X-X', 'Y-Y-Y', 'Z-Z-Z'],
        'ru': ['Ц-Ц-Ц', 'Ч-Ч-Ч', 'Ш-Ш-Ш', 'Ы-Ы-Ы', 'Э-Э-Э', 'Ю-Ю-Ю']}
DISP['de'] = DISP['en']
OPW = {'en': {'+': 'plus', '-': 'minus', '\\cdot': 'times', '\\times': 'times', '/': 'over', None: 'equal'},
       'de': {'+': 'plus', '-': 'minus', '\\cdot': 'mal', '\\times': 'mal', '/': 'durch', None: 'gleich'},
       'ru': {'+': 'плюс', '-': 'минус', '\\cdot': 'раз', '\\times': 'раз', '/': 'на', None: 'равно'}}


def M(src, *atoms):
    return ('math', src, atoms)


# atoms: ('e', x) element, ('o', op) operator, ('p', c) punctuation, ('s', ' ') maths space
PARTS = [
    M('a', ('e', 'a')), M('= b', ('o', '='), ('e', 'b')), M('-c', ('o', '-'), ('e', 'c')), M('\\cdot d', ('o', '\\cdot'), ('e', 'd')),
    M('\\le e', ('o', '\\le'), ('e', 'e')), M('f.', ('e', 'f'), ('p', '.')), M('= g,', ('o', '='), ('e', 'g'), ('p', ',')),
    M('\\quad h', ('s', ' '), ('e', 'h')), M('i \\label{l}', ('e', 'i')), M('j; \\nonumber', ('e', 'j'), ('p', ';')),
    M('=', ('o', '=')), ('text', '\\text{ %s }', ' %s '), ('text', '\\mbox{%s}', '%s'), M('k\\;', ('e', 'k'), ('s', ' ')),
    M('\\frac{x}{y}_1^{2}', ('e', 'x')), M('/ m:', ('o', '/'), ('e', 'm'), ('p', ':')), M('+', ('o', '+')),
    M('n,\\quad\\quad', ('e', 'n'), ('p', ','), ('s', ' '), ('s', ' ')), M('o.\\ \\ \\label{x}', ('e', 'o'), ('p', '.'), ('s', ' '), ('s', ' ')),
    M('\\ge p', ('o', '\\ge'), ('e', 'p')),
    ('text', '\\mbox{ }', ' '), ('text', '\\text{  }', '  '),
    M('\\quad\\quad - q', ('s', ' '), ('s', ' '), ('o', '-'), ('e', 'q')), M('\\ \\;= r', ('s', ' '), ('s', ' '), ('o', '='), ('e', 'r')),
]
# a document may redefine an operator macro (common preamble line); the scheme must not change
PREAMBLES = ['', '\\renewcommand{\\le}{\\leqslant}\\renewcommand{\\ge}{\\geqslant}\n']
FRAMES = [('\\begin{align}', '\\end{align}'), ('\\begin{equation}', '\\end{equation}'), ('\\[', '\\]'), ('$$', '$$'),
          ('\\begin{eqnarray*}', '\\end{eqnarray*}'), ('\\begin{alignat}{2}', '\\end{alignat}'), ('\\begin{equation*}', '\\end{equation*}'),
          ('\\begin{align*}', '\\end{align*}'), ('\\begin{gather}', '\\end{gather}'), ('\\begin{displaymath}', '\\end{displaymath}'),
          ('\\begin{eqnarray}', '\\end{eqnarray}'), ('\\begin{flalign}', '\\end{flalign}'), ('\\begin{flalign*}', '\\end{flalign*}'),
          ('\\begin{gather*}', '\\end{gather*}'), ('\\begin{multiline}', '\\end{multiline}'), ('\\begin{multiline*}', '\\end{multiline*}'),
          ('\\begin{alignat*}{2}', '\\end{alignat*}')]
ROWSEP = [' \\\\ ', ' \\\\[2ex] ']


class Rot:
    def __init__(self, lst):
        self.l = list(lst)

    def rot(self):
        self.l = self.l[1:] + self.l[:1]

    def cur(self):
        return self.l[0]


def model_eq(rows, lang, rot, simple):
    """rows: list of rows, row: list of sections, section: list of parts (text parts already instantiated)"""
    lines = []
    next_repl = True
    for row in rows:
        line = ''
        for si, sec in enumerate(row):
            if si > 0:
                line += ' '
            first_part = si > 0
            merged = []
            for p in sec:
                if p[0] == 'math' and merged and merged[-1][0] == 'math':
                    merged[-1] = ('math', merged[-1][1] + ' ' + p[1], merged[-1][2] + p[2])
                else:
                    merged.append(p)
            for p in merged:
                if p[0] == 'text':
                    line += p[2]
                    if p[2].strip():
                        first_part = False
                        next_repl = True
                    continue
                atoms = p[2]
                if all(a[0] == 's' for a in atoms):
                    line += ' '
                    continue
                ns = [a for a in atoms if a[0] != 's']
                if atoms[0][0] == 's':
                    line += ' '
                op = ns[0] if ns[0][0] == 'o' else None
                elem = any(a[0] == 'e' for a in atoms)
                if first_part and op:
                    line += ' ' + OPW[lang].get(op[1], OPW[lang][None]) + ' '
                if (next_repl or (op and first_part)) and elem:
                    rot.rot()
                if elem:
                    line += rot.cur()
                next_repl = False
                if ns[-1][0] == 'p':
                    line += ns[-1][1]
                    next_repl = True
                if op and not elem:
                    next_repl = True
                if atoms[-1][0] == 's':
                    line += ' '
        lines.append(line)
    if simple:
        txt = '\n'.join(lines).strip()
        s = rot.cur()
        if txt and txt[-1] in '.,;:':
            s += txt[-1]
        return [s]
    return lines


def secs_all():
    P = range(len(PARTS))
    return [[i] for i in P] + [[i, j] for i in P for j in P]


def secs_small(tier):
    P = range(len(PARTS))
    pairs = [[i, j] for i in P for j in P]
    step = 13 if tier == 'quick' else 5
    return [[i] for i in P] + pairs[::step]


class Builder:
    def __init__(self):
        self.s = ''
        self.nw = 0
        self.words = {}
        self.eqs = []

    def word(self):
        w = 'W' + chr(97 + self.nw // 26) + chr(97 + self.nw % 26) + 'q'
        self.nw += 1
        self.words[w] = len(self.s)
        self.s += w
        return w

    def equation(self, rows, fi, rs):
        a = len(self.s)
        self.s += FRAMES[fi][0] + ' '
        inst = []
        for ri, row in enumerate(rows):
            if ri:
                self.s += ROWSEP[rs]
            irow = []
            for si, sec in enumerate(row):
                if si:
                    self.s += ' & '
                isec = []
                for pi, p in enumerate(sec):
                    if pi:
                        self.s += ' '
                    part = PARTS[p]
                    if part[0] == 'text' and '%s' not in part[1]:
                        self.s += part[1]
                        isec.append(('text', None, part[2]))
                    elif part[0] == 'text':
                        pre, post = part[1].split('%s')
                        self.s += pre
                        w = self.word()
                        self.s += post
                        isec.append(('text', None, part[2] % w))
                    else:
                        self.s += part[1]
                        isec.append(part)
                irow.append(isec)
            inst.append(irow)
        self.s += ' ' + FRAMES[fi][1]
        self.eqs.append((a, len(self.s)))
        return inst


def build(case):
    rows, fi, lang, simple, rs = case[:5]
    b = Builder()
    b.s = PREAMBLES[case[5] if len(case) > 5 else 0]
    b.word()
    b.s += ' '
    i1 = b.equation(rows, fi, rs)
    b.s += ' '
    b.word()
    b.s += ' '
    i2 = b.equation([[[0]]], 1, 0)
    b.s += ' '
    b.word()
    b.s += '\n'
    return b, i1, i2


class C11:
    id = 'C11'
    level = 'model_checking'
    chunk = 100
    rule = ('states = (equation tree, frame, language, simple mode, row separator), each followed by a second equation so that '
            'rotation across equations is judged; non-trivial = more than one part, row or section, or punctuation / operator / text part present')
    assumptions = [
        'the number of blanks between items is not fixed by the documented scheme: items are compared after splitting at white space, glueing is judged',
        'part menu stands for maths material of its kind (element, leading operator, punctuation, maths space, label, text)',
    ]

    def bounds(self, tier):
        return {'parts': [p[1] for p in PARTS], 'frames': [f[0] for f in FRAMES], 'rows': '1-3', 'sections': '1-3', 'parts_per_section': '1-2',
                'languages': ['en', 'de', 'ru'], 'simple_mode': [False, True], 'row_separators': ROWSEP}

    def cases(self, tier, seed):
        sa = secs_all()
        ss = secs_small(tier)
        for fi in range(len(FRAMES)):
            for s1 in sa:
                yield [[[s1]], fi, ('en', 'de', 'ru')[(fi + len(s1)) % 3], False, 0]
        for s1 in sa:
            yield [[[s1]], 0, 'de', True, 0]
            yield [[[s1]], 0, 'en', 'nosp', 0]          # simple equations together with --nosp
            yield [[[s1]], 2, 'de', 'nosp-full', 0]     # --nosp alone: the full scheme
            yield [[[s1]], 2, 'ru', False, 0]
            yield [[[s1]], 2, 'en', True, 0]
            yield [[[s1]], 3, 'ru', True, 0]
            yield [[[s1, [0]]], 2, 'de', True, 0]
            # the last row is closed by a row separator: an empty row follows
            yield [[[s1], []], 0, 'en', True, 0]
            yield [[[s1], []], 8, 'ru', False, 1]
            yield [[[[0], s1]], 0, 'en', False, 0, 1]
        combos = (('en', False), ('de', True), ('ru', False)) if tier == 'quick' else (('en', False), ('de', True), ('ru', False), ('en', True), ('de', False))
        for s1 in ss:
            for s2 in ss:
                for lang, simple in combos:
                    yield [[[s1, s2]], 0, lang, simple, 0]
                    yield [[[s1], [s2]], 0 if len(s1) % 2 else 8, lang, simple, len(s2) % 2]
                    yield [[[s1, s2], [s2, s1]], 4, lang, simple, 1]
        P = range(len(PARTS))
        for a, b, c in itertools.product(P, repeat=3):
            yield [[[[a], [b], [c]]], 0, 'en', False, 0]
            yield [[[[a]], [[b]], [[c]]], 5, 'ru', False, 0]

    def judge(self, case):
        rows, fi, lang, simple, rs = case[:5]
        nosp = simple in ('nosp', 'nosp-full')
        simple = simple in (True, 'nosp')
        b, i1, i2 = build(case)
        src = b.s
        o = impl.run_filter(src, dict({'pack': '*', 'lang': lang, 'seqs': simple}, **({'nosp': True} if nosp else {})))
        if o.kind != 'ok':
            return {'viol': [{'clause': 'returns', 'sig': 'C11:no-result', 'detail': {'source': src, 'info': o.info}}], 'out': o.info, 'nt': True, 'tr': 1}
        plain, nums = o.result
        nums = list(nums)
        rot = Rot(DISP[lang])
        l1 = model_eq(i1, lang, rot, simple)
        l2 = model_eq(i2, lang, rot, simple)
        ws = sorted(b.words, key=lambda w: b.words[w])
        w0, wmid, wend = ws[0], [w for w in ws if b.eqs[0][1] <= b.words[w] < b.eqs[1][0]][0], ws[-1]
        flat = [w0 + ' ' + l1[0]] + l1[1:]
        flat[-1] = flat[-1] + ' ' + wmid + ' ' + l2[0] + ' ' + wend
        exp = [l.split() for l in flat]
        got = [l.split() for l in plain.split('\n')]
        while got and not got[-1]:
            got.pop()
        viol = []
        tag = '%s:%s%s' % (FRAMES[fi][0].replace('\\begin', ''), lang, ':simple' if simple else '')
        det = {'source': src, 'plain': plain, 'expected_lines': exp, 'got_lines': got, 'lang': lang, 'simple': simple}
        if o.stderr:
            viol.append({'clause': 'no diagnostic', 'sig': 'C11:stderr', 'detail': dict(det, stderr=o.stderr[:200])})
        if len(got) != len(exp):
            viol.append({'clause': 'one output line per row', 'sig': 'C11:lines:' + tag, 'detail': det})
        elif got != exp:
            k = next(i for i in range(len(got)) if got[i] != exp[i])
            kind = 'rotation' if [re.sub(r'[A-ZЦЧШЫЭЮ]-[A-ZЦЧШЫЭЮ]-[A-ZЦЧШЫЭЮ]', 'P', x) for x in got[k]] == \
                [re.sub(r'[A-ZЦЧШЫЭЮ]-[A-ZЦЧШЫЭЮ]-[A-ZЦЧШЫЭЮ]', 'P', x) for x in exp[k]] else 'scheme'
            viol.append({'clause': 'placeholders, operator words, copied text and punctuation as documented',
                         'sig': 'C11:%s:%s' % (kind, tag), 'detail': det})
        else:
            # positions: words exact, everything else inside its equation
            for w, off in b.words.items():
                if simple and any(a <= off < e for a, e in b.eqs):
                    continue        # with simple replacements the whole equation is one placeholder
                i = plain.find(w)
                if i < 0 or nums[i:i + 4] != list(range(off + 1, off + 5)):
                    viol.append({'clause': '\\text / \\mbox arguments are copied with exact positions', 'sig': 'C11:textpos:' + tag,
                                 'detail': dict(det, word=w, got=nums[i:i + 4] if i >= 0 else None, expected=off + 1)})
                    break
            i1_ = plain.find(wmid)
            for i, ch in enumerate(plain):
                if ch in ' \n\t':
                    # generated white space (indentation, separators of the scheme) belongs to its own equation;
                    # all other white space is a copy of source white space
                    a, e = b.eqs[0] if i < i1_ else b.eqs[1]
                    if not (src[nums[i] - 1] in ' \n\t' or a < nums[i] <= e):
                        viol.append({'clause': 'generated white space maps inside its own equation', 'sig': 'C11:wspos:' + tag,
                                     'detail': dict(det, index=i, position=nums[i], span=[a + 1, e])})
                        break
                    continue
                inword = any(0 <= i - plain.find(w) < 4 for w in b.words if plain.find(w) >= 0)
                if inword:
                    continue
                a, e = b.eqs[0] if i < i1_ else b.eqs[1]
                if not (a < nums[i] <= e):
                    viol.append({'clause': 'every generated character maps inside the equation', 'sig': 'C11:genpos:' + tag,
                                 'detail': dict(det, index=i, char=ch, position=nums[i], span=[a + 1, e])})
                    break
            # no maths source
            if re.search(r'[\\_^{}&$]|\b[a-rx-y]\b', plain):
                viol.append({'clause': 'no maths source appears', 'sig': 'C11:leak:' + tag, 'detail': det})
        nparts = sum(len(sec) for row in rows for sec in row)
        nt = nparts > 1 or any(PARTS[p][0] == 'text' or len(PARTS[p][2]) > 1 for row in rows for sec in row for p in sec) or simple
        return {'viol': viol[:2], 'out': plain, 'nt': nt, 'tr': 1}

    def explain(self, case):
        b, i1, i2 = build(case)
        return 'source %r\nequation tree %r frame %r lang %s simple %r' % (b.s, case[0], FRAMES[case[1]], case[2], case[3])


CHECK = C11()
