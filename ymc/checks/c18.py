"""C18 - extraction and inclusion tracking find exactly the included files, each once.

Extraction: sequences of items (listed / unlisted macros in every context),
oracle = first mandatory arguments of listed macros outside comments, skipped
regions and verbatim material, in order, nothing else.
Inclusion: ALL inclusion graphs over three files x start lists x --skip
patterns, run through the real top-level code of yalafi/shell/shell.py;
oracle = a work-list model; conformance replays through the real CLI."""
import itertools
import os
import re

from .. import core, impl, shell

# ---------------------------------------------------------------- extraction

# uses: (source template with %s for the argument, listed macro name or None, expected extraction template or None)
USES = [
    ('\\input{%s}', 'input', '%s'), ('\\include{%s}', 'include', '%s'), ('\\footnote{%s}', 'footnote', '%s'),
    ('\\footnote[1]{%s}', 'footnote', '%s'), ('\\input{}', 'input', None), ('\\input Z', 'input', 'Z'),
    ('\\input  {%s}', 'input', '%s'), ('\\include%%c\n{%s}', 'include', '%s'),
    ('\\label{%s}', None, None), ('\\xxx{%s}', None, None), ('\\caption{%s}', None, None), ('%s', None, None),
    ('\\section{%s}', None, None), ('\\includegraphics{%s}', None, None),
]
# contexts: (before, after, visible?)
CONTEXTS = [
    ('', '', True), ('{', '}', True), ('\\xxx{', '}', True), ('\\begin{minipage}{w}', '\\end{minipage}', True),
    ('\\begin{itemize}\\item ', '\\end{itemize}', True), ('\\begin{uenv}', '\\end{uenv}', True),
    ('% ', '\n', False), ('%%% LT-SKIP-BEGIN\n', '\n%%% LT-SKIP-END\n', False), ('\\LTskip{', '}', False),
    ('\\verb|', '|', False), ('\\begin{verbatim}\n', '\n\\end{verbatim}', False),
    ('\\begin\n  {verbatim}\n', '\n\\end{verbatim}', False),       # a line break between \begin and the name
]
# contexts that are ordinary text when the special macros and magic comments are switched off (--nosp)
VISIBLE_NOSP = {7}         # (\\LTskip{..} becomes an ordinary declared macro: listed macros in its argument are outside the model)
EXTRS = ['input,include', 'input,include,footnote', 'footnote']


def build_extr(seq, frame=0, nosp=False):
    """seq: list of (use index, context index) -> (source, [(listed macro, text)])
    frame 0: text before, between and after the items; 1: the last item ends the text (at most one
    line break behind it); 2: the first item starts the text"""
    s = 'Wzaq ' if frame != 2 else ''
    exp = []
    for k, (ui, ci) in enumerate(seq):
        tpl, mac, out = USES[ui]
        w = 'W' + chr(97 + k) + 'xq'
        before, after, visible = CONTEXTS[ci]
        use = tpl % w if '%s' in tpl else tpl
        s += before + use + after
        if frame != 1 or k < len(seq) - 1:
            s += ' Wz%sq ' % chr(98 + k)
        if (visible or (nosp and ci in VISIBLE_NOSP)) and mac and out:
            exp.append((mac, out % w if '%s' in out else out))
    if frame == 1:
        return (s[:-1] if s.endswith('\n') and len(seq) % 2 else s), exp
    return s + '\n', exp


# ---------------------------------------------------------------- inclusion

FILES = ['a', 'b', 'c.1']      # a base name may contain a dot: '.tex' is still added
LISTS = [()] + [(x,) for x in FILES] + [(x, y) for x in FILES for y in FILES]      # 13 ordered lists of 0-2 targets
STARTS = [['a.tex'], ['a.tex', 'b.tex'], ['b.tex', 'a.tex', 'a.tex']]
SKIPS = [None, 'b.*', 'c\\.1\\.tex']
# spelling of an inclusion (thorough): macro and whether '.tex' is written
SPELL = [('\\input{%s}', False), ('\\include{%s}', False), ('\\input{%s.tex}', True)]


def model_include(graph, start, skip):
    def skipped(f):
        return skip is not None and re.fullmatch(skip, f) is not None
    todo = list(start)
    done = []
    while todo:
        f = todo.pop(0)
        if f in done or skipped(f):
            continue
        done.append(f)
        for t in graph[f[:-4]]:
            t = t + '.tex'
            if t not in done and t not in todo and not skipped(t):
                todo.append(t)
    return done


def file_text(name, targets, spell):
    s = 'Text of %s.\n' % name
    for k, t in enumerate(targets):
        s += SPELL[(spell + k) % len(SPELL)][0] % t + ' more text\n'
    return s


class C18:
    id = 'C18'
    level = 'model_checking'
    chunk = 40
    rule = ('states = extraction documents (sequences of listed/unlisted macro uses in contexts, x extraction lists) and inclusion '
            'runs (graph over 3 files x start list x skip pattern x spelling); non-trivial = a listed macro occurs in the document, '
            'resp. the graph has at least one inclusion edge')
    assumptions = [
        'a listed macro inside the argument of another declared macro, and listed-inside-listed, are not generated (README restricts '
        'the option to the first mandatory argument of the macros given; order unspecified)',
        'three files suffice to exhibit cycles, self-inclusion, duplicates and diamonds',
        'in-process driver runs the real top-level code of shell.py; bound to the CLI by conformance replays',
    ]

    def init_worker(self):
        os.chdir(core.scratch_dir())

    def bounds(self, tier):
        return {'extraction': {'uses': [u[0] for u in USES], 'contexts': [c[0] + '..' + c[1] for c in CONTEXTS], 'max_items': 2 if tier == 'quick' else 3,
                               'extraction_lists': EXTRS},
                'inclusion': {'files': 3, 'lists_per_file': len(LISTS), 'graphs': len(LISTS) ** 3, 'start_lists': STARTS, 'skip': SKIPS,
                              'spellings': 'one of %d per run (rotating)' % len(SPELL) if tier == 'quick' else len(SPELL), 'packages': 'default (*)'}}

    def cases(self, tier, seed):
        items = [(u, c) for u in range(len(USES)) for c in range(len(CONTEXTS))]
        for it in items:
            for e in range(len(EXTRS)):
                yield ['x', [list(it)], e]
                yield ['x', [list(it)], e, 1]
                yield ['x', [list(it)], e, 2]
                yield ['x', [list(it)], e, 0, 'nosp']
        core_items = [(u, c) for u in (0, 1, 2, 5, 8, 9, 11) for c in (0, 2, 4, 6, 7, 9)]
        for a in items:
            for b in core_items:
                yield ['x', [list(a), list(b)], (a[0] + b[1]) % len(EXTRS)]
            for b in items:
                if b[0] in (0, 2, 9) and b[1] in (0, 6, 7):
                    yield ['x', [list(a), list(b)], 1, 1]
                    yield ['x', [list(b), list(a)], 1, 2]
        if tier != 'quick':
            for a, b, c in itertools.product(core_items, repeat=3):
                yield ['x', [list(a), list(b), list(c)], (a[0] + c[1]) % len(EXTRS)]
        for ga in range(len(LISTS)):
            for gb in range(len(LISTS)):
                for gc in range(len(LISTS)):
                    for si in range(len(STARTS)):
                        for ki in range(len(SKIPS)):
                            for sp in ([(ga + gb + gc + si) % len(SPELL)] if tier == 'quick' else range(len(SPELL))):
                                yield ['i', [ga, gb, gc], si, ki, sp]

    def judge(self, case):
        if case[0] == 'x':
            return self.judge_extr(case)
        return self.judge_incl(case)

    def judge_extr(self, case):
        seq, ei = case[1], case[2]
        nosp = len(case) > 4 and case[4] == 'nosp'
        src, exp = build_extr(seq, case[3] if len(case) > 3 else 0, nosp)
        extr = EXTRS[ei]
        listed = extr.split(',')
        want = [t for m, t in exp if m in listed]
        o = impl.run_filter(src, dict({'pack': '*', 'lang': 'en', 'extr': extr}, **({'nosp': True} if nosp else {})))
        if o.kind != 'ok':
            return {'viol': [{'clause': 'returns', 'sig': 'C18:extr:no-result', 'detail': {'source': src, 'info': o.info}}], 'out': o.info, 'nt': True, 'tr': 1}
        plain = o.result[0]
        got = plain.split()
        viol = []
        if got != want:
            extra = [g for g in got if g not in want]
            missing = [w for w in want if w not in got]
            kind = 'extra' if extra else 'missing' if missing else 'order'
            uc = next(((USES[u][0], CONTEXTS[c][0]) for u, c in seq if (extra or missing or ['?'])[0] in (USES[u][0] % ('W' + chr(97 + seq.index([u, c])) + 'xq') if '%s' in USES[u][0] else USES[u][0])), ('?', '?'))
            viol.append({'clause': 'output == first mandatory arguments of the listed macros outside comments / skipped / verbatim, in order, nothing else',
                         'sig': 'C18:extr:%s:%s in %s' % (kind, uc[0][:14], uc[1][:12] or 'top'),
                         'detail': {'source': src, 'extr': extr, 'got': got, 'expected': want, 'plain': plain}})
        nt = any(USES[u][1] for u, c in seq)
        return {'viol': viol, 'out': plain, 'nt': nt, 'tr': 1}

    def setup_incl(self, case):
        _, g, si, ki, sp = case
        graph = {FILES[k]: LISTS[g[k]] for k in range(3)}
        d = os.path.join(core.scratch_dir(), 'incl')
        os.makedirs(d, exist_ok=True)
        for name in FILES:
            with open(os.path.join(d, name + '.tex'), 'w') as f:
                f.write(file_text(name, graph[name], sp))
        argv = ['--include']
        if SKIPS[ki]:
            argv += ['--skip', SKIPS[ki]]
        argv += STARTS[si]
        return graph, d, argv

    def judge_incl(self, case):
        _, g, si, ki, sp = case
        graph, d, argv = self.setup_incl(case)
        want = model_include(graph, STARTS[si], SKIPS[ki])
        viol = []
        try:
            sess = shell.Session(argv, lambda txt, cmd: shell.lt_answer([]), cwd=d)
            got = list(sess.cmdline.file)
            err = sess.startup_stderr
        except shell.ShellExit as e:
            got, err = None, 'exit %r: %s' % (e.code, e.stderr)
        except core.Hang:
            got, err = None, 'does not terminate (watchdog)'
        except Exception as e:
            got, err = None, 'exception %s: %s' % (type(e).__name__, e)
        if got != want:
            cyc = 'cyclic' if any(f in graph[t] for f in FILES for t in graph[f]) or any(f in graph[f] for f in FILES) else 'acyclic'
            kind = 'no-result' if got is None else 'extra' if set(got) - set(want) else 'missing' if set(want) - set(got) else 'duplicate' if len(got) != len(set(got)) else 'order'
            viol.append({'clause': 'files to be checked == files reachable from the given ones, each once, discovery order, none matching --skip',
                         'sig': 'C18:include:%s:%s:skip=%s' % (kind, cyc, SKIPS[ki]),
                         'detail': {'graph': {k: list(v) for k, v in graph.items()}, 'argv': argv, 'got': got, 'expected': want, 'stderr': err[-300:]}})
        elif 'checking for file inclusions ... ' + ', '.join(want) not in err:
            viol.append({'clause': 'progress line names the files', 'sig': 'C18:include:progress-line',
                         'detail': {'argv': argv, 'stderr': err[-300:], 'expected': want}})
        nt = any(graph[f] for f in FILES)
        return {'viol': viol, 'out': got, 'nt': nt, 'tr': 1}

    def conformance_picks(self, seed):
        """real CLI with the fake proofreader; the '=== file' lines are the files actually proofread"""
        k = 211 + seed % 17
        return [c for i, c in enumerate(c for c in self.cases('quick', seed) if c[0] == 'i') if i % k == seed % k][:60]

    def finish(self, ctx):
        self.init_worker()
        n = 0
        viol = []
        for case in self.conformance_picks(ctx['seed']):
            k, vs = self.conformance_one(case)
            n += k
            viol += [(case, v) for v in vs]
        return {'conformance_replays': n, 'viol': viol}

    def conformance_one(self, case):
        _, g, si, ki, sp = case
        graph, d, argv = self.setup_incl(case)
        want = model_include(graph, STARTS[si], SKIPS[ki])
        rc, out, err, args = shell.run_cli(argv, {}, {}, shell.lt_answer([]), d)
        files = re.findall(r'^=== (\S+)$', err, re.M)
        if rc != 0 or files != want:
            return 1, [{'clause': 'CLI proofreads exactly the model list (conformance of the in-process driver)',
                        'sig': 'C18:include:cli', 'detail': {'argv': argv, 'rc': rc, 'proofread': files, 'expected': want, 'stderr': err[-300:]}}]
        return 1, []

    def explain(self, case):
        if case[0] == 'x':
            src, exp = build_extr(case[1], case[3] if len(case) > 3 else 0)
            return 'source %r\nextr=%s\nexpected %r' % (src, EXTRS[case[2]], exp)
        graph = {FILES[k]: LISTS[case[1][k]] for k in range(3)}
        return 'graph %r start %r skip %r\nmodel %r' % (graph, STARTS[case[2]], SKIPS[case[3]], model_include(graph, STARTS[case[2]], SKIPS[case[3]]))


CHECK = C18()
