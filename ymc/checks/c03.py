"""C03 - prose is conserved: typeset words once, in order; hidden text never leaks."""
from .. import catalogue as cat
from .. import catcheck


class C03:
    id = 'C03'
    level = 'model_checking'
    chunk = 150
    rule = ('states = catalogue documents (forest x layout x language); non-trivial = the document contains at least '
            'one construct that hides, generates, detaches or multiplies text (anything but pure copy-through) and the '
            'filter returned a text')
    assumptions = [
        'the words W..q / H..q are outside every name the filter reacts to; the filter never inspects the letters of a word',
        'order of a detached flow nested in another detached flow is not judged (statement leaves it open)',
        'meaning of each catalogue entry is taken from README / list-of-macros.md',
    ]
    init_worker = staticmethod(catcheck.init_worker)
    bounds = staticmethod(catcheck.bounds)
    cases = staticmethod(catcheck.cases)
    explain = staticmethod(catcheck.explain)

    def judge(self, case):
        r, o, skip = catcheck.run_case(case)
        if skip:
            return {'viol': [], 'out': 'skip', 'nt': False, 'tr': 1, 'cnt': {'skipped:' + skip: 1}}
        if o.kind != 'ok':
            return {'viol': [{'clause': 'returns', 'sig': 'C03:no-result:' + o.kind, 'detail': o.info}],
                    'out': o.info, 'nt': True, 'tr': 1}
        plain = o.result[0]
        viol = []
        names = list(cat.names_in(case[0]))
        tag = '>'.join(names[:2])
        got = cat.WORD_RE.findall(plain)
        exp = cat.expected_words(r)
        if r.nested_detached:
            ok = sorted(got) == sorted(exp)
            # each flow complete, in order, in one piece (a flow may be printed more than once, words may repeat)
            if ok:
                for f in r.flows:
                    ws = [s[1] for s in f if s[0] == 'C' and cat.WORD_RE.fullmatch(s[1])]
                    if ws and not any(got[i:i + len(ws)] == ws for i in range(len(got) - len(ws) + 1)):
                        ok = False
        else:
            ok = got == exp
        if not ok:
            lost = [w for w in exp if w not in got]
            dup = [w for w in set(got) if got.count(w) > exp.count(w)]
            kind = 'lost' if lost else 'dup' if dup else 'order'
            w = (lost or dup or [None])[0]
            where = self.where(r, w) if w else tag
            viol.append({'clause': 'word sequence per flow (main flow, then detached flows), with multiplicity',
                         'sig': 'C03:words:%s:%s' % (kind, where),
                         'detail': {'source': r.src, 'plain': plain, 'expected': exp, 'got': got}})
        for h in r.hidden:
            if h in plain:
                viol.append({'clause': 'hidden text never leaks', 'sig': 'C03:leak:' + self.where_hidden(r, h),
                             'detail': {'source': r.src, 'plain': plain, 'hidden': h}})
                break
        # markup: none of \ { } $ except those predicted
        allowed = ''.join(s[1] for f in r.flows for s in f if isinstance(s[1], str))
        for ch in '\\{}$':
            if plain.count(ch) > allowed.count(ch):
                viol.append({'clause': 'no markup left in the output', 'sig': 'C03:markup:%s:%s' % (ch, tag),
                             'detail': {'source': r.src, 'plain': plain}})
                break
        nt = any(cat.META[n]['cls'] != 'copy' for n in names)
        return {'viol': viol, 'out': plain, 'nt': nt, 'tr': 1}

    def where(self, r, w):
        for name, off, fl, path in r.words:
            if name == w:
                return '>'.join(r.nodes[i]['name'] for i in path[-2:]) or 'top'
        return 'generated'

    def where_hidden(self, r, h):
        off = r.src.find(h)
        n = catcheck.innermost(r, off)
        return catcheck.construct_path(r, n).split('>')[-1] if n is not None else 'top'


CHECK = C03()
