"""C15 - any proofreader answer gives an in-file report or a clean error, no traceback
(fault enumeration over the answer).

Base: a valid LanguageTool answer with two matches.  Deviation 1: every
single-field deletion, every type change, value perturbations of the numeric
fields, hostile strings, every byte truncation, degenerate answers, all
in-range (offset, length) pairs.  Deviation 2 (thorough): pairs of field
faults.  Each in 5 output modes and through the server emulation."""
import copy
import itertools
import json
import os
import re

from .. import core, reports, shell

TEX = 'This is ä \\textbf{testx}.\nSecond $x$ line\\footnote{Foot text}.\n\nLast\n'
# second source: the text ends where the file ends (positions behind the last character are critical there)
TEX2 = 'A ä b.\nLast \\textbf{line} $x'      # ... and with a LaTeX problem close to the end (split error mark)
# third source: many short lines, for a long match with a short one nested in it
# fourth source: plain end - the last character of the text is the last character of the file
TEX4 = 'A ä b.\nLast \\textbf{line}'
TEX3 = ''.join('line%d \\emph{w%d} end\n' % (i, i) for i in range(9))
MODES = ['plain', 'json', 'xml', 'xml-b', 'html', 'server']
_plain = None
_plain3 = None
_plain2 = None
_plain4 = None


def plain_text():
    global _plain
    if _plain is None:
        from .. import impl
        o = impl.run_filter(TEX, {'pack': '*', 'lang': 'en-GB', 'char': True})
        _plain = o.result[0]
    return _plain


def plain_text3():
    global _plain3
    if _plain3 is None:
        from .. import impl
        _plain3 = impl.run_filter(TEX3, {'pack': '*', 'lang': 'en-GB', 'char': True}).result[0]
    return _plain3


def plain_text4():
    global _plain4
    if _plain4 is None:
        from .. import impl
        o = impl.run_filter(TEX4 + '\n', {'pack': '*', 'lang': 'en-GB', 'char': True})
        _plain4 = o.result[0]
    return _plain4


def plain_text2():
    global _plain2
    if _plain2 is None:
        from .. import impl
        o = impl.run_filter(TEX2 + '\n', {'pack': '*', 'lang': 'en-GB', 'char': True})
        _plain2 = o.result[0]
    return _plain2


def base_answer():
    t = plain_text()
    m0 = shell.lt_match(t, 10, 5, message='Möglicher Fehler', rule='RULE_A', repl=('test', 'tests'))
    m0['rule']['urls'] = [{'value': 'https://example.org/a'}]
    m0['rule']['subId'] = '2'
    m1 = shell.lt_match(t, t.index('Last'), 4, message='second', rule='RULE_B', repl=())
    return {'software': {'name': 'LanguageTool'}, 'language': {'code': 'en-GB'}, 'matches': [m0, m1]}


def paths(obj, prefix=()):
    """every path to a value below 'matches' (dict keys and list indices)"""
    out = []
    if isinstance(obj, dict):
        for k in obj:
            out.append(prefix + (k,))
            out += paths(obj[k], prefix + (k,))
    elif isinstance(obj, list):
        for i in range(len(obj)):
            out.append(prefix + (i,))
            out += paths(obj[i], prefix + (i,))
    return out


def get(obj, path):
    for k in path:
        obj = obj[k]
    return obj


def setp(obj, path, val):
    for k in path[:-1]:
        obj = obj[k]
    obj[path[-1]] = val


def delp(obj, path):
    for k in path[:-1]:
        obj = obj[k]
    del obj[path[-1]]


TYPES = [5, 'str', [], {}, None, True, 1.5, -3, [1], {'value': 1}]
NUMS = lambda n: [-1, 0, 1, n - 1, n, n + 1, n + 2, 10 ** 6, -10 ** 6]       # noqa: E731
STRINGS = ['', '< > & " \'', 'line\nbreak', 'tab\there', 'x' * 10000, 'lone \ud800 surrogate', '\u202e\u0000', '%s {0} \\n',
           'a<br>\nb</td></tr>\n<tr><td>', 'upper \udc00 escape']     # the report's own row markup; the escape is sent as \\uDC00
_paths = None


def all_paths():
    global _paths
    if _paths is None:
        b = base_answer()
        _paths = [('matches',)] + paths(b['matches'], ('matches',))
    return _paths


def apply_fault(ans, fault):
    """fault: ['del', pi] ['type', pi, ti] ['num', pi, vi] ['str', pi, si]"""
    p = all_paths()[fault[1]]
    if fault[0] == 'del':
        delp(ans, p)
    elif fault[0] == 'type':
        setp(ans, p, TYPES[fault[2]])
    elif fault[0] == 'num':
        setp(ans, p, NUMS(len(plain_text()) + 2)[fault[2]])
    elif fault[0] == 'str':
        setp(ans, p, STRINGS[fault[2]])


def answer_bytes(case):
    kind = case[0]
    if kind == 'faults':
        ans = base_answer()
        for f in case[1]:
            try:
                apply_fault(ans, f)
            except (KeyError, IndexError, TypeError):
                return None         # second fault addresses something the first one removed
        return json.dumps(ans).encode('utf-8').replace(b'\\udc00', b'\\uDC00')
    if kind == 'trunc':
        return json.dumps(base_answer(), ensure_ascii=False).encode('utf-8')[:case[1]]
    if kind == 'raw':
        return RAW[case[1]]
    if kind == 'pair':
        t = plain_text() + '\n\n'
        return shell.lt_answer([shell.lt_match(t, case[1], case[2], message='m')])
    if kind == 'end0':
        t = plain_text4() + '\n\n'
        return shell.lt_answer([shell.lt_match(t, case[1], case[2], message='m')])
    if kind == 'end':
        t = plain_text2() + '\n\n'
        return shell.lt_answer([shell.lt_match(t, case[1], case[2], message='m')])
    if kind == 'nest':
        t = plain_text3() + '\n\n'
        return shell.lt_answer([shell.lt_match(t, case[1], case[2], message='long'), shell.lt_match(t, case[3], case[4], message='short')])
    if kind == 'pair2':
        t = plain_text() + '\n\n'
        return shell.lt_answer([shell.lt_match(t, case[1], case[2], message='m'), shell.lt_match(t, case[3], case[4], message='n')])
    raise ValueError(kind)


RAW = [b'', b'null', b'[]', b'{}', b'{"matches": null}', b'{"matches": {}}', b'{"matches": [null]}', b'{"matches": [[]]}', b'\xff\xfe\x00',
       b'{"matches": []} trailing', b'Exception in thread "main" java.lang.OutOfMemoryError', b'{"matches": [], "matches": 7}',
       b'{"matches": [{"offset": 1e400, "length": 1}]}', b'[' * 3000 + b']' * 3000, b'{"matches": [{}]}', b'"matches"', b'\xef\xbb\xbf{"matches": []}',
       b'{"matches": [{"offset": NaN, "length": 1}]}']


def in_file(tex, line=None, col=None, offset=None, length=None):
    lines = tex.split('\n')
    if lines[-1] == '':
        lines = lines[:-1]
    if line is not None:
        if not 1 <= line <= len(lines):
            return 'line %r outside the file (%d lines)' % (line, len(lines))
        if col is not None and not 1 <= col <= len(lines[line - 1]) + 1:
            return 'column %r outside line %d (%d characters)' % (col, line, len(lines[line - 1]))
    if offset is not None:
        if not 0 <= offset <= len(tex):
            return 'offset %r outside the file (%d characters)' % (offset, len(tex))
        if length is not None and not (length >= 0 and offset + length <= len(tex)):
            return 'offset %r + length %r beyond the file (%d characters)' % (offset, length, len(tex))
    return None


def judge_output(mode, out, tex):
    """every location in the report lies inside the file -> problem or None"""
    try:
        if mode == 'plain':
            for g in reports.parse_plain(out):
                p = in_file(tex, line=g['line'], col=g['column'])
                if p:
                    return p
        elif mode in ('json', 'server'):
            ms = reports.parse_json(out) if mode == 'json' else out['matches']
            for m in ms:
                p = in_file(tex, offset=m['offset'], length=m['length'])
                if p:
                    return p
                pr = m.get('priv')
                if pr:
                    p = in_file(tex, line=pr['fromy'] + 1, col=pr['fromx'] + 1) or in_file(tex, line=pr['toy'] + 1, col=max(pr['tox'], 1))
                    if p:
                        return 'priv: ' + p
        elif mode in ('xml', 'xml-b'):
            for g in reports.parse_xml(out):
                lines = tex.split('\n')
                fy, fx, ty, tx = int(g['fromy']), int(g['fromx']), int(g['toy']), int(g['tox'])
                for y, x in ((fy, fx), (ty, tx)):
                    if not 0 <= y < len(lines) - (1 if lines[-1] == '' else 0):
                        return 'line index %d outside the file' % y
                    n = len(lines[y].encode('utf-8')) if mode == 'xml-b' else len(lines[y])
                    if not 0 <= x <= n + 1:
                        return 'column %d outside line %d (%d)' % (x, y, n)
        elif mode == 'html':
            p = reports.parse_html(out)
            nl = tex.count('\n')
            for t, r in p.rows:
                if t == 0 and r and r[0].strip('\xa0 \u2002'):
                    k = r[0].strip('\xa0 \u2002')
                    if not k.isdigit() or not 1 <= int(k) <= nl:
                        return 'row number %r outside the file' % k
            for h in p.highlights:
                if h['title']:
                    m = re.search(r'Line[\u2002 ](\d+)', h['title'])
                    if m and not 1 <= int(m.group(1)) <= nl:
                        return 'title names line %s outside the file' % m.group(1)
    except (KeyError, ValueError, TypeError) as e:
        return 'report cannot be read: %r' % e
    return None


class C15:
    id = 'C15'
    level = 'fault_enumeration'
    chunk = 25
    evals_per_state = len(MODES)
    rule = ('cases = answers with 0-2 deviations from a valid two-match answer (deletion / type change / numeric perturbation / hostile string '
            'per field path; byte truncations; degenerate answers; all in-range offset-length pairs), each in 6 output modes; non-trivial = '
            'the answer deviates from the valid base (everything but the plain in-range pairs) or the match touches the first/last character or has length 0')
    assumptions = [
        'the answer menu is built from the fields LanguageTool sends (plus optional rule.urls, rule.subId)',
        'in-process driver = real top-level code with proofreader.subprocess.run replaced; output is additionally encoded as UTF-8 as the CLI does; '
        'bound to the CLI by conformance replays (exit status, stdout, stderr class)',
        'clean error = exit status 1 and the shell\'s own "*** ... internal error" diagnostic',
    ]

    def init_worker(self):
        d = os.path.join(core.scratch_dir(), 'c15')
        os.makedirs(d, exist_ok=True)
        with open(os.path.join(d, 'f.tex'), 'w', encoding='utf-8') as f:
            f.write(TEX)
        self.dir = d
        self.sess = shell.Session(['--language', 'en-GB', '--link', 'f.tex'], lambda t, c: b'', cwd=d)
        with open(os.path.join(d, 'g.tex'), 'w', encoding='utf-8') as f:
            f.write(TEX2)
        self.sess2 = shell.Session(['--language', 'en-GB', 'g.tex'], lambda t, c: b'', cwd=d)
        with open(os.path.join(d, 'h.tex'), 'w', encoding='utf-8') as f:
            f.write(TEX3)
        self.sess3 = shell.Session(['--language', 'en-GB', '--context', '0', 'h.tex'], lambda t, c: b'', cwd=d)
        with open(os.path.join(d, 'k.tex'), 'w', encoding='utf-8') as f:
            f.write(TEX4)
        self.sess4 = shell.Session(['--language', 'en-GB', 'k.tex'], lambda t, c: b'', cwd=d)
        plain_text4()
        plain_text()
        plain_text2()
        plain_text3()
        all_paths()

    def bounds(self, tier):
        return {'source': TEX, 'field_paths': len(all_paths()), 'type_values': [repr(t) for t in TYPES], 'numeric_values': 'len-relative: -1 0 1 n-1 n n+1 n+2 1e6 -1e6 (1e9 in a context length makes the text report a gigabyte of carets: not judged)',
                'strings': [repr(s)[:30] for s in STRINGS], 'raw_answers': len(RAW), 'modes': MODES,
                'deviations': 1 if tier == 'quick' else 2, 'in_range_pairs': 'all (offset, length) on the submitted text incl. its delimiter'}

    def cases(self, tier, seed):
        P = all_paths()
        b = base_answer()
        yield ['faults', []]
        singles = []
        for pi, p in enumerate(P):
            singles.append(['del', pi])
            for ti in range(len(TYPES)):
                singles.append(['type', pi, ti])
            v = get(b, p)
            if isinstance(v, int) and not isinstance(v, bool):
                for vi in range(9):
                    singles.append(['num', pi, vi])
            if isinstance(v, str):
                for si in range(len(STRINGS)):
                    singles.append(['str', pi, si])
        for f in singles:
            yield ['faults', [f]]
        n = len(json.dumps(b, ensure_ascii=False).encode('utf-8'))
        for k in range(n):
            yield ['trunc', k]
        for i in range(len(RAW)):
            yield ['raw', i]
        N = len(plain_text()) + 2
        for o in range(N):
            for l in range(0, N - o + 1):
                yield ['pair', o, l]
        N2 = len(plain_text2()) + 2
        for o in range(N2):
            for l in list(range(0, N2 - o + 1)) + [N2 + 5, 1000]:
                yield ['end', o, l]
        N4 = len(plain_text4()) + 2
        for o in range(N4):
            for l in list(range(0, N4 - o + 1)) + [N4 + 5, 1000]:
                yield ['end0', o, l]
        N3 = len(plain_text3())
        for o in (0, 5, 14):
            for l in (20, 60, N3 - o):
                for o2 in range(o, min(o + 30, N3), 4):
                    for l2 in (0, 3):
                        yield ['nest', o, l, o2, l2]
        for o in (0, 3, N - 3):
            for l in (0, 2):
                for o2 in range(0, N, 3):
                    for l2 in (0, 1, 5):
                        yield ['pair2', o, l, o2, l2]
        if tier != 'quick':
            core_singles = [f for f in singles if f[0] in ('del', 'num') or (f[0] == 'type' and f[2] in (1, 4)) or (f[0] == 'str' and f[2] in (2, 5))]
            first = [f for f in core_singles if P[f[1]][:2] == ('matches', 0)]
            for f, g in itertools.combinations(first, 2):
                yield ['faults', [f, g]]

    def run_mode(self, mode, ans, second=False):
        s = self.sess3 if second == 3 else self.sess4 if second == 4 else self.sess2 if second else self.sess
        s.answer = lambda t, c: ans
        if mode == 'server':
            val, err, code, exc = s.request({'language': ['en-GB'], 'text': [TEX3 if second == 3 else TEX4 + '\n' if second == 4 else TEX2 + '\n' if second else TEX]})
            if val is not None:
                try:
                    json.dumps(val).encode('ascii')
                except Exception as e:
                    exc = 'output: %s' % type(e).__name__
            return val, err, code, exc
        s.cmdline.output = mode
        out, err, code, exc = s.report()
        if exc is None and code is None:
            try:
                out.encode('utf-8')
            except UnicodeEncodeError:
                exc = 'UnicodeEncodeError at output (the CLI writes the report as UTF-8)'
        return out, err, code, exc

    def judge(self, case):
        ans = answer_bytes(case)
        if ans is None:
            return {'viol': [], 'out': 'skip', 'nt': False, 'tr': 1, 'cnt': {'skipped: second fault not applicable': 1}}
        viol = []
        outs = []
        what = self.what(case)
        second = 3 if case[0] == 'nest' else 4 if case[0] == 'end0' else case[0] == 'end'
        for mode in MODES:
            out, err, code, exc = self.run_mode(mode, ans, second)
            det = {'answer': ans[:1500].decode('utf-8', 'replace'), 'mode': mode, 'stderr': err[-400:], 'fault': what}
            if exc:
                viol.append({'clause': 'never an unhandled Python exception', 'sig': 'C15:traceback:%s:%s' % (exc.split(' ')[0].rstrip(':'), self.field(case)),
                             'detail': dict(det, exception=exc)})
                outs.append('exc')
                continue
            if code is not None:
                outs.append('exit%s' % code)
                if code != 1 or 'internal error' not in err or '***' not in err or 'Traceback' in err:
                    viol.append({'clause': 'stops with its own one-line diagnostic and exit status 1', 'sig': 'C15:exit:%s:%s' % (code, mode),
                                 'detail': det})
                continue
            tex = TEX3 if second == 3 else TEX4 + '\n' if second == 4 else TEX2 + '\n' if second else TEX
            p = judge_output(mode, out, tex)
            outs.append('report')
            if p:
                viol.append({'clause': 'every location in the report lies inside the LaTeX file', 'sig': 'C15:outside:%s:%s' % (mode, case[0]),
                             'detail': dict(det, problem=p, report=(out if isinstance(out, str) else json.dumps(out))[:800])})
        nt = case[0] not in ('pair',) or case[2] == 0 or case[1] == 0 or case[1] + case[2] >= len(plain_text())
        return {'viol': viol[:3], 'out': outs, 'nt': nt, 'tr': 1}

    def what(self, case):
        if case[0] == 'faults':
            return [(f[0], '.'.join(map(str, all_paths()[f[1]])), (TYPES[f[2]] if f[0] == 'type' else f[2]) if len(f) > 2 else None) for f in case[1]]
        return case

    def field(self, case):
        if case[0] == 'faults' and case[1]:
            f = case[1][0]
            return '%s:%s' % (f[0], '.'.join(str(k) for k in all_paths()[f[1]] if not isinstance(k, int)))
        return case[0]

    def conformance_picks(self, seed):
        """conformance with the real CLI: some cases of every kind and every k-th"""
        picks = []
        perkind = {}
        k = 97 + seed % 31
        for i, case in enumerate(self.cases('quick', seed)):
            kind = case[0] + (':' + case[1][0][0] if case[0] == 'faults' and case[1] else '')
            if perkind.get(kind, 0) < 3 or i % k == seed % k:
                perkind[kind] = perkind.get(kind, 0) + 1
                if answer_bytes(case) is not None:
                    picks.append(case)
        return picks[:45]

    def finish(self, ctx):
        self.init_worker()
        n = 0
        viol = []
        for case in self.conformance_picks(ctx['seed']):
            k, vs = self.conformance_one(case)
            n += k
            viol += [(case, v) for v in vs]
        return {'conformance_replays': n, 'viol': viol}

    def conformance_one(self, case):
        d = os.path.join(core.scratch_dir(), 'cli15')
        ans = answer_bytes(case)
        second = 3 if case[0] == 'nest' else 4 if case[0] == 'end0' else case[0] == 'end'
        viol = []
        n = 0
        for mode in ('plain', 'html', 'json'):
            out, err, code, exc = self.run_mode(mode, ans, second)
            rc, cout, cerr, args = shell.run_cli(['--language', 'en-GB', '--output', mode] + (['--context', '0', 'h.tex'] if second == 3 else ['k.tex'] if second == 4 else ['g.tex'] if second else ['--link', 'f.tex']),
                                                 {'f.tex': TEX, 'g.tex': TEX2, 'h.tex': TEX3, 'k.tex': TEX4}, {}, ans, d)
            n += 1
            if exc:
                same = 'Traceback' in cerr and rc == 1
            elif code is not None:
                same = rc == code and 'Traceback' not in cerr
            else:
                same = rc == 0 and cout.decode('utf-8', 'replace') == out
            if not same:
                viol.append({'clause': 'in-process outcome equals the outcome of the CLI (conformance)', 'sig': 'C15:conformance:' + mode,
                             'detail': {'answer': ans[:600].decode('utf-8', 'replace'), 'in_process': [str(out)[:300], code, exc],
                                        'cli': [rc, cout.decode('utf-8', 'replace')[:300], cerr[-300:]]}})
        return n, viol

    def explain(self, case):
        a = answer_bytes(case)
        return 'LaTeX file %r\nsubmitted text %r\nfault %r\nanswer %r' % (TEX, plain_text(), self.what(case), a[:2000] if a else None)


CHECK = C15()
