"""C07 - the filter is total: arbitrary input never crashes or hangs it (fault enumeration)."""
from .. import rawspace


class C07:
    id = 'C07'
    level = 'fault_enumeration'
    chunk = 250
    rule = ('cases = (source string, option set) with 0, 1 or 2 deviations from a well-formed document; non-trivial = the '
            'input is malformed in the sense that the filter printed a diagnostic or the source is a proper fault '
            '(prefix / suffix / deletion / duplication / tail fault / key-value string), and the call returned')
    assumptions = [
        'excluded syntactically, as in the statement: user macros that may call themselves, redefinition of built-in macros, '
        'redefinition of the default equation environment',
        'termination is decided by a 10 s watchdog per call (typical call: 4 ms)',
    ]
    init_worker = staticmethod(rawspace.init_worker)
    explain = staticmethod(rawspace.explain)

    def bounds(self, tier):
        return rawspace.bounds(tier, 'C07')

    def cases(self, tier, seed):
        return rawspace.cases(tier, 'C07')

    def judge(self, case):
        src, cfg, o, skip = rawspace.run(case)
        if skip:
            return {'viol': [], 'out': 'skip', 'nt': False, 'tr': 1, 'cnt': {'skipped:' + skip: 1}}
        viol = []
        if o.kind != 'ok':
            viol.append({'clause': 'terminates and returns a result, no unhandled exception',
                         'sig': 'C07:%s:%s' % (o.kind, o.info.split(':')[0] if o.kind == 'exc' else case[0]),
                         'detail': {'source': src, 'config': cfg, 'info': o.info, 'stderr': o.stderr[-300:]}})
        else:
            ml = rawspace.config_of(cfg)[1]
            r = o.result
            ok = (isinstance(r, dict) and all(isinstance(p[0], str) and len(p) == 2 for l in r for p in r[l])) if ml else \
                (isinstance(r, tuple) and len(r) == 2 and isinstance(r[0], str))
            if not ok:
                viol.append({'clause': 'result has the documented shape', 'sig': 'C07:shape',
                             'detail': {'source': src, 'config': cfg, 'result': repr(r)[:300]}})
        nt = o.kind == 'ok' and (bool(o.stderr) or case[0] in ('fault', 'fault2', 'tail', 'tail2', 'kv', 'body'))
        return {'viol': viol, 'out': [cfg, o.kind, repr(o.result)], 'nt': nt, 'tr': 1, 'hang': o.kind == 'hang'}


CHECK = C07()
