"""C19 - the unknowns list names exactly the undeclared macros/environments used in text.

Documents are sequences of placement items; each item contributes use /
define / load events.  Reference model: ordered set of first uses of names
that are not declared at that point (built-in, package, earlier definition)."""
import itertools

from .. import impl

# package-declared names used in the menu
PKG_DECL = {'\\textcolor': 'xcolor', 'proof': 'amsthm', '\\gls': 'glossaries', '\\text': 'amsmath', 'tikzpicture': 'tikz',
            '\\includegraphics': 'graphicx', 'otherlanguage': 'babel', '\\foreignlanguage': 'babel',
            '\\gls@defglossaryentry': 'glossaries', '\\GLS': 'glossaries', '\\Gls': 'glossaries'}
# packages that load other packages
REQUIRES = {'pgfplots': ['graphicx', 'tikz']}

# item: (source, events)   events: ('use', name) ('def', name, body-events) ('load', pkg) ('usem', macro)
ITEMS = [
    ('\\ua', [('use', '\\ua')]),
    ('\\ub{Wx}', [('use', '\\ub')]),
    ('\\ua{\\ub}', [('use', '\\ua'), ('use', '\\ub')]),
    ('\\LTadd{\\ua}', [('use', '\\ua')]),
    ('\\footnote{\\ub text}', [('use', '\\ub')]),
    ('\\section{\\ua}', [('use', '\\ua')]),
    ('\\begin{ux}\\ub\\end{ux}', [('use', 'ux'), ('use', '\\ub')]),
    ('\\begin{itemize}\\item \\ua\\end{itemize}', [('use', '\\ua')]),
    ('\\begin{minipage}{w}\\ub\\end{minipage}', [('use', '\\ub')]),
    ('$\\ua$', []),
    ('\\begin{equation}\\ub = \\uc\\end{equation}', []),
    ('$x\\text{ \\ua }$', [('use-if', 'amsmath', '\\ua')]),
    ('$\\begin{uy}y\\end{uy}$', []),
    ('% \\ua\n', []),
    ('%%% LT-SKIP-BEGIN\n\\ub\n%%% LT-SKIP-END\n', []),
    ('\\LTskip{\\ua}', []),
    ('\\verb|\\ub|', []),
    ('\\begin{verbatim}\\ua\\end{verbatim}', []),
    ('\\label{\\ua}', []),
    ('\\newcommand{\\ua}{Wd}', [('def', '\\ua', [])]),
    ('\\def\\ub{We}', [('def', '\\ub', [])]),
    ('\\newcommand{\\mm}{\\ua}', [('def', '\\mm', [('use', '\\ua')])]),
    ('\\mm', [('usem', '\\mm')]),
    ('\\textcolor{red}{Wx}', [('use', '\\textcolor')]),
    ('\\begin{proof}Wp\\end{proof}', [('use', 'proof')]),
    ('\\usepackage{xcolor}', [('load', 'xcolor')]),
    ('\\usepackage{amsthm}', [('load', 'amsthm')]),
    ('\\ref{k} \\LaTeX{} \\label{l}', []),
    ('\\uc[o]{\\ua}', [('use', '\\uc'), ('use', '\\ua')]),
    ('\\newtheorem{ux}{Thm}', [('def', 'ux', [])]),
    ('\\renewcommand{\\ub}[1]{#1\\uc}', [('def', '\\ub', [('use', '\\uc')])]),
    # arguments that the filter only looks at as text (length, phantom content)
    ('A\\hspace{\\ua}B', [('use', '\\ua')]),
    ('\\phantom{\\ub x}', [('use', '\\ub')]),
    # a package that requires two others, one of them possibly loaded before with other options
    ('\\usepackage[draft]{graphicx}', [('load', 'graphicx')]),
    ('\\usepackage{pgfplots}', [('load', 'pgfplots')]),
    ('\\begin{tikzpicture}\\end{tikzpicture}', [('use', 'tikzpicture')]),
    ('\\includegraphics{f}', [('use', '\\includegraphics')]),
    # package lists with white space around the commas
    ('\\usepackage{xcolor ,amsthm}', [('load', 'xcolor'), ('load', 'amsthm')]),
    ('\\usepackage{ amsthm\n ,graphicx\n , xcolor }', [('load', 'amsthm'), ('load', 'graphicx'), ('load', 'xcolor')]),
    # babel: the environment's handler works with an internal helper macro, which must never show up as a used name
    ('\\usepackage[german]{babel}', [('load', 'babel')]),
    ('\\begin{otherlanguage}{german}Wo\\end{otherlanguage} Wp', [('use', 'otherlanguage')]),
    ('\\foreignlanguage{german}{Wf}', [('use', '\\foreignlanguage')]),
    # a glossary entry whose text contains a declared macro, used through the capitalising macros
    ('\\gls@defglossaryentry{kg}{name={Gn},text={gt \\LaTeX{} gu},description={gd}}', [('use', '\\gls@defglossaryentry')]),
    ('\\GLS{kg} \\Gls{kg}', [('use', '\\GLS'), ('use', '\\Gls')]),
]
# phrase replacements must not touch the list of names
REPL = ['\\ua & \\replaced\n', 'ux & uy\n', '\\ub \\uc & \n']
PACKS = {'': set(), '*': {'xcolor', 'amsthm', 'glossaries', 'amsmath', 'tikz', 'graphicx', 'pgfplots', 'babel'}, 'xcolor': {'xcolor'}, 'amsthm,amsmath': {'amsthm', 'amsmath'},
         'xcolor,': {'xcolor'}, 'amsthm,,amsmath': {'amsthm', 'amsmath'}, 'cleveref,*': {'xcolor', 'amsthm', 'glossaries', 'amsmath', 'tikz', 'graphicx', 'pgfplots', 'babel'},
         '*,cleveref': {'xcolor', 'amsthm', 'glossaries', 'amsmath', 'tikz', 'graphicx', 'pgfplots', 'babel'}}


def model(seq, pack):
    loaded = set(PACKS[pack])
    defined = {}
    out = []

    def use(name):
        if name in defined:
            for ev in defined[name]:
                run(ev)
            return
        if PKG_DECL.get(name) in loaded:
            return
        if name not in out:
            out.append(name)

    def run(ev):
        if ev[0] == 'use':
            use(ev[1])
        elif ev[0] == 'use-if':
            if ev[1] in loaded:
                use(ev[2])
        elif ev[0] == 'usem':
            use(ev[1])
        elif ev[0] == 'def':
            defined[ev[1]] = ev[2]
        elif ev[0] == 'load':
            loaded.add(ev[1])
            loaded.update(REQUIRES.get(ev[1], []))
    for i in seq:
        for ev in ITEMS[i][1]:
            run(ev)
    return out


def build(seq):
    return 'Wa ' + ' Wm '.join(ITEMS[i][0] for i in seq) + ' Wz\n'


class C19:
    id = 'C19'
    level = 'model_checking'
    chunk = 200
    rule = ('states = (sequence of placement items, package selection); non-trivial = the sequence contains at least one use of an '
            'undeclared or conditionally declared name (text, argument, footnote, heading, maths, comment, skipped, defined before/after)')
    assumptions = [
        'contents of removed environments (tikzpicture ...) are not generated: the statement does not say whether they count as text',
        '\\ua \\ub \\uc ux stand for all undeclared names',
    ]

    def bounds(self, tier):
        return {'items': [i[0] for i in ITEMS], 'max_items': 3, 'package_selections': list(PACKS),
                'length3_package_selections': ['*'] if tier == 'quick' else list(PACKS)}

    def cases(self, tier, seed):
        n = len(ITEMS)
        for k in (1, 2):
            for seq in itertools.product(range(n), repeat=k):
                for pack in PACKS:
                    yield [list(seq), pack]
        for seq in itertools.product(range(n), repeat=3):
            for pack in (['*'] if tier == 'quick' else list(PACKS)):
                yield [list(seq), pack]
        for k in (1, 2):
            for seq in itertools.product(range(n), repeat=k):
                yield [list(seq), '*', 'repl']
        # package items (loading, requirements) in all orders, without any package preloaded
        pk = [i for i, it in enumerate(ITEMS) if 'usepackage' in it[0] or it[1] and it[1][0][1] in PKG_DECL]
        for seq in itertools.product(pk, repeat=3):
            yield [list(seq), '']
        for seq in itertools.product(pk, repeat=4):
            if len(set(seq)) == 4:
                yield [list(seq), '']

    def judge(self, case):
        seq, pack = case[:2]
        src = build(seq)
        opts = {'pack': pack, 'lang': 'en', 'unkn': True}
        if len(case) > 2:
            opts['repl'] = REPL
        o = impl.run_filter(src, opts)
        if o.kind != 'ok':
            return {'viol': [{'clause': 'returns', 'sig': 'C19:no-result', 'detail': {'source': src, 'info': o.info}}], 'out': o.info, 'nt': True, 'tr': 1}
        txt, nums = o.result
        exp = model(seq, pack)
        exp_txt = '\n'.join(exp) + '\n'
        viol = []
        if txt != exp_txt:
            got = txt.split('\n')[:-1] if txt.endswith('\n') else txt.split('\n')
            got = [g for g in got if g != ''] if exp == [] else got
            extra = [g for g in got if g not in exp]
            missing = [e for e in exp if e not in got]
            kind = 'extra' if extra else 'missing' if missing else 'order-or-duplicate'
            culprit = (extra or missing or ['?'])[0]
            ctxitem = next((ITEMS[i][0] for i in seq if culprit in ITEMS[i][0]), '?')
            viol.append({'clause': 'unknowns == undeclared names used outside maths, once each, in order of first use, one per line',
                         'sig': 'C19:%s:%s' % (kind, ctxitem[:24]),
                         'detail': {'source': src, 'pack': pack, 'got': txt, 'expected': exp_txt}})
        if len(txt) != len(nums):
            viol.append({'clause': 'length of dummy map', 'sig': 'C19:length', 'detail': {'source': src}})
        nt = any(ITEMS[i][1] or '\\u' in ITEMS[i][0] for i in seq)
        return {'viol': viol, 'out': txt, 'nt': nt, 'tr': 1}

    def init_worker(self):
        pass

    def conformance_picks(self, seed):
        k = 1201 + seed % 37
        return [c[:2] for i, c in enumerate(self.cases('quick', seed)) if i % k == seed % k][:30]

    def finish(self, ctx):
        self.init_worker()
        n = 0
        viol = []
        for case in self.conformance_picks(ctx['seed']):
            k, vs = self.conformance_one(case)
            n += k
            viol += [(case, v) for v in vs]
        return {'conformance_replays': n, 'viol': viol}

    def conformance_one(self, case):
        """the same list through `python -m yalafi.shell --list-unknown` and through `python -m yalafi --unkn`"""
        import os
        import subprocess
        import sys
        from .. import core, shell
        d = os.path.join(core.scratch_dir(), 'unk')
        os.makedirs(d, exist_ok=True)
        seq, pack = case
        viol = []
        src = build(seq)
        exp = model(seq, pack)
        rc, out, err, args = shell.run_cli(['--list-unknown', '--packages', pack, 'u.tex'], {'u.tex': src}, {}, shell.lt_answer([]), d)
        want = ('=== u.tex ===\n' + '\n'.join(exp) + '\n') if exp else ''
        if rc != 0 or out.decode('utf-8') != want:
            viol.append({'clause': '--list-unknown prints the same list', 'sig': 'C19:shell-list-unknown',
                         'detail': {'source': src, 'pack': pack, 'rc': rc, 'stdout': out.decode('utf-8', 'replace'), 'expected': want, 'stderr': err[-300:]}})
        p = subprocess.run([sys.executable, '-m', 'yalafi', '--unkn', '--pack', pack, os.path.join(d, 'u.tex')], cwd=d, capture_output=True,
                           env=dict(os.environ, PYTHONPATH=core.REPO))
        if p.returncode != 0 or p.stdout.decode('utf-8') != '\n'.join(exp) + '\n':
            viol.append({'clause': '`python -m yalafi --unkn` prints the same list', 'sig': 'C19:cli-unkn',
                         'detail': {'source': src, 'pack': pack, 'rc': p.returncode, 'stdout': p.stdout.decode('utf-8', 'replace'), 'expected': exp}})
        return 2, viol

    def explain(self, case):
        return 'source %r pack=%r\nmodel %r' % (build(case[0]), case[1], model(case[0], case[1]))


CHECK = C19()
