"""C09 - user macro definitions expand by TeX substitution, in order, from any source.

A definition set (menu of bodies x definers) and a list of uses are rendered
into a document; a substitution interpreter over the AST predicts the output
segments (arguments copied, body text generated at the call site).  Each case
is run with the definitions in the document, in the --defs text and in an
\\LTinput file: text must be identical, positions shifted by a constant."""
import os
import re

from .. import catalogue as cat
from .. import core, impl

# body items: ('t', text) | ('a', k) | ('call', name, [items]) | ('fn', [items])
BODIES = [
    # (source of body, number of parameters, default of optional first parameter or None, items)
    ('<#1>', 1, None, [('t', '<'), ('a', 0), ('t', '>')]),
    ('#1#1', 1, None, [('a', 0), ('a', 0)]),
    ('#2|#1', 2, None, [('a', 1), ('t', '|'), ('a', 0)]),
    ('Gaaq', 0, None, [('t', 'Gaaq')]),
    ('Gaaq #1 Gabq', 1, None, [('t', 'Gaaq'), ('a', 0), ('t', 'Gabq')]),
    ('(#1/#2)', 2, 'Gdq', [('t', '('), ('a', 0), ('t', '/'), ('a', 1), ('t', ')')]),
    ('#9#1', 9, None, [('a', 8), ('a', 0)]),
    ('[\\mB{#1}]', 1, None, [('t', '['), ('call', '\\mB', [[('a', 0)]]), ('t', ']')]),
    ('\\footnote{#1}', 1, None, [('fn', [('a', 0)])]),
    ('=#1=', 1, 'Gddq', [('t', '='), ('a', 0), ('t', '=')]),
    ('#2', 2, None, [('a', 1)]),
    ('\\mB{#1}\\mB{Geq}', 1, None, [('call', '\\mB', [[('a', 0)]]), ('call', '\\mB', [[('t', 'Geq')]])]),
    ('v#1.#10', 1, None, [('t', 'v'), ('a', 0), ('t', '.'), ('a', 0), ('t', '0')]),      # '#10' is parameter 1 followed by the digit 0
    ('#20#1', 2, None, [('a', 1), ('t', '0'), ('a', 0)]),
]
MB = ('{#1}', 1, None, [('a', 0)])      # helper macro \mB: braces around its argument
DEFINERS = ['newcommand', 'renew', 'def']
# use shapes
USES = [
    ['brace'], ['tok'], ['brace', 'brace'], ['opt'], ['emptyopt'], ['omit', 'opt'], ['nested'], ['before'],
    ['redef'], ['omit-end'], ['brace-end'], ['infoot'], ['nested-foot'],
]
LAYOUTS = ['lines', 'indented']
# where the uses stand: (name, text before, text after, generated text behind)
WRAPS = [('top', '', '', None), ('arg', '\\xxx{', '}', None), ('item', '\\begin{itemize}\\item ', '\\end{itemize}', None),
         ('heading', '\\section{', '}', '.'), ('group', '{', '}', None)]
PAIR_USES = [[a, b] for a in ('brace', 'tok', 'opt', 'omit', 'nested') for b in ('brace', 'opt', 'emptyopt', 'omit', 'nested')]
ROUTES = ['doc', 'defs', 'ltinput']
# option sets under which the three routes are compared: default; Latin-1 input encoding with a non-ASCII character in the
# definitions; --nosp together with the preamble line the README prescribes (\newcommand{\LTinput}[1]{} has to be ignored)
VARIANTS = ['std', 'latin1', 'nosp', 'pre', 'extr']
# 'extr': the three routes under --extr footnote (only the footnote text is output; only the route comparison is judged)
# 'pre': text with a footnote stands in front of the definitions (of the \LTinput line); only the route comparison is judged
PRE = 'Wpaq\\footnote{Wpbq Wpcq} Wpdq\n'


def defsrc(definer, name, body, n, default):
    if definer == 'def':
        return '\\def' + name + ''.join('#%d' % k for k in range(1, n + 1)) + '{' + body + '}'
    s = '\\' + definer + '{' + name + '}'
    if n:
        s += '[%d]' % n
    if default is not None:
        s += '[' + default + ']'
    return s + '{' + body + '}'


class Model:
    def __init__(self, ctx):
        self.ctx = ctx
        self.defs = {}

    def expand(self, name, args, node):
        """args: list of (segments, detached flows); returns (segments, detached)"""
        n, default, items = self.defs[name]
        return self.items(items, args, node)

    def items(self, items, args, node):
        segs, det = [], []
        for it in items:
            if it[0] == 't':
                for piece in it[1].split():
                    segs.append(['G', piece, node])
            elif it[0] == 'a':
                a = args[it[1]]
                segs += a[0]
                det += a[1]
            elif it[0] == 'call':
                sub = [self.items(x, args, node) for x in it[2]]
                s, d = self.expand(it[1], sub, node)
                segs += s
                det += d
            elif it[0] == 'fn':
                s, d = self.items(it[1], args, node)
                det += d + [s]
        return segs, det


def build(case):
    bi, definer, ui, layout = case[:4]
    wrap = WRAPS[case[4]] if len(case) > 4 else WRAPS[0]
    body, n, default, items = BODIES[bi]
    if definer == 'def' and default is not None:
        return None
    uses = USES[ui] if ui >= 0 else PAIR_USES[-ui - 1]
    if wrap[0] != 'top' and any(u in ('redef', 'omit-end', 'brace-end', 'before') for u in uses):
        return None
    has_opt = default is not None
    if any(u in ('opt', 'emptyopt', 'omit', 'omit-end') for u in uses) and not has_opt:
        return None
    if has_opt and not any(u in ('opt', 'emptyopt', 'omit', 'omit-end', 'nested', 'redef', 'before') for u in uses):
        return None
    if 'omit-end' in uses and n != 1:
        pass
    # definition text
    lines = [defsrc('newcommand', '\\mB', MB[0], 1, None)]
    if definer == 'renew':
        lines.append(defsrc('newcommand', '\\mA', 'OLDq', n, default))
        lines.append(defsrc('renewcommand', '\\mA', body, n, default))
    else:
        lines.append(defsrc(definer, '\\mA', body, n, default))
    if layout == 'indented':
        dtxt = ''.join(('  ' * k) + l + '\n' for k, l in enumerate(lines))
    else:
        dtxt = ''.join(l + '\n' for l in lines)
    ctx = cat.Ctx(' ', 'en')
    m = Model(ctx)
    m.defs['\\mB'] = (1, None, MB[3])
    m.defs['\\mA'] = (n, default, items)

    def one_arg(kind, j):
        """render one mandatory argument, return (segments, detached)"""
        fl = []
        ctx.stack.append(fl)
        if kind == 'tok' or n == 9:
            ch = chr(ord('1') + j) if n == 9 else 'x'
            if n != 9:
                ctx.w(' ')
            ctx.copy(ch)
        else:
            ctx.w('{')
            ctx.word()
            ctx.w('}')
        ctx.stack.pop()
        return (fl, [])

    def use(kind, inner=None):
        node = ctx.open('use', ('wsgen',))
        ctx.w('\\mA')
        args = []
        k = 0
        if has_opt:
            if kind == 'opt':
                ctx.w('[')
                fl = []
                ctx.stack.append(fl)
                ctx.word()
                ctx.stack.pop()
                ctx.w(']')
                args.append((fl, []))
            elif kind == 'emptyopt':
                ctx.w('[]')
                args.append(([], []))
            else:
                args.append(([['G', default, node]], []))
            k = 1
        for j in range(k, n):
            if inner is not None and j == k:
                ctx.w('{')
                fl = []
                ctx.stack.append(fl)
                ctx.word()
                ctx.w(' ')
                s, d = inner()
                for x in s:
                    ctx.seg(x)
                ctx.w(' ')
                ctx.word()
                ctx.stack.pop()
                ctx.w('}')
                args.append((fl, d))
            else:
                args.append(one_arg(kind, j))
        if n == 0 or (has_opt and n == 1 and kind not in ('omit-end',)):
            if kind not in ('omit-end',):
                ctx.w('{}')
        ctx.close()
        return m.expand('\\mA', args, node)

    def emit(sd):
        s, d = sd
        for x in s:
            ctx.seg(x)
        ctx.detached += d

    ctx.word()
    ctx.w(' ')
    wnode = ctx.open('wrap-' + wrap[0], ('wsgen',))
    ctx.w(wrap[1])
    ctx.word()
    for u in uses:
        ctx.w(' ')
        if u == 'nested':
            if n < 1 or (has_opt and n < 2):
                return None
            emit(use('brace', inner=lambda: use('brace')))
        elif u == 'nested-foot':
            if n < 1 or has_opt:
                return None
            ctx.w('\\footnote{')
            ctx.detach_begin()
            ctx.word()
            ctx.w(' ')
            emit(use('brace', inner=lambda: use('brace')))
            ctx.detach_end()
            ctx.w('}')
        elif u == 'infoot':
            if has_opt:
                return None
            ctx.w('\\footnote{')
            ctx.detach_begin()
            ctx.word()
            ctx.w(' ')
            emit(use('brace'))
            ctx.detach_end()
            ctx.w('}')
        elif u == 'before':
            return None     # handled by a separate document shape below
        elif u == 'redef':
            emit(use('brace'))
            ctx.w(' ')
            ctx.word()
            ctx.w('\n')
            ctx.w(defsrc('renewcommand' if definer != 'def' else 'def', '\\mA', 'Gnewq', n, default if definer != 'def' else None))
            ctx.w('\n')
            m.defs['\\mA'] = (n, default, [('t', 'Gnewq')])
            ctx.word()
            ctx.w(' ')
            emit(use('brace'))
        elif u in ('omit-end', 'brace-end'):
            emit(use('omit-end' if u == 'omit-end' else 'brace'))
            ctx.facts['ends_with_use'] = True
        else:
            emit(use(u))
        if not ctx.facts.get('ends_with_use'):
            ctx.w(' ')
            ctx.word()
    if not ctx.facts.get('ends_with_use'):
        ctx.w(wrap[2])
        if wrap[3]:
            ctx.gen(wrap[3], wnode)
        ctx.close()
        ctx.w(' ')
        ctx.word()
        ctx.w('\n')
    else:
        ctx.close()
    return ctx, dtxt


def build_before(case):
    """use before the definition: treated as unknown macro (vanishes, braced argument stays)"""
    bi, definer, ui, layout = case
    body, n, default, items = BODIES[bi]
    if definer == 'def' and default is not None or n == 9 or default is not None:
        return None
    ctx = cat.Ctx(' ', 'en')
    ctx.word()
    ctx.w(' \\mA')
    for j in range(n):
        ctx.w('{')
        ctx.word()
        ctx.w('}')
    if not n:
        ctx.w('{}')
    ctx.w(' ')
    ctx.word()
    ctx.w('\n')
    ctx.w(defsrc('newcommand' if definer == 'renew' else definer, '\\mA', body, n, None))
    ctx.w('\n')
    m = Model(ctx)
    m.defs['\\mA'] = (n, None, items)
    m.defs['\\mB'] = (1, None, MB[3])
    ctx.word()
    ctx.w(' ')
    node = ctx.open('use', ('wsgen',))
    ctx.w('\\mA')
    args = []
    for j in range(n):
        ctx.w('{')
        fl = []
        ctx.stack.append(fl)
        ctx.word()
        ctx.stack.pop()
        ctx.w('}')
        args.append((fl, []))
    if not n:
        ctx.w('{}')
    ctx.close()
    s, d = m.expand('\\mA', args, node)
    for x in s:
        ctx.seg(x)
    ctx.detached += d
    ctx.w(' ')
    ctx.word()
    ctx.w('\n')
    return ctx, defsrc('newcommand', '\\mB', MB[0], 1, None) + '\n'


class C09:
    id = 'C09'
    level = 'model_checking'
    chunk = 20
    evals_per_state = 3
    rule = ('states = (body, definer, use shape, layout of the definition block), each run over the three supply routes; '
            'non-trivial = at least one use expands a definition with parameters (output contains argument text in a place or '
            'multiplicity different from the source)')
    assumptions = [
        'non-recursive definitions with undelimited parameters only; definitions inside a group / argument are not generated '
        '(TeX would scope them, the statement is silent)',
        'body text belongs to the call-site span; arguments keep their own offsets',
    ]

    def init_worker(self):
        d = core.scratch_dir()
        os.chdir(d)

    def bounds(self, tier):
        return {'bodies': [b[0] for b in BODIES], 'definers': DEFINERS, 'use_shapes': USES, 'pairs_of_uses': len(PAIR_USES), 'contexts_of_the_uses': [w[0] for w in WRAPS], 'definition_layouts': LAYOUTS,
                'routes': ROUTES, 'option_variants': VARIANTS}

    def cases(self, tier, seed):
        for bi in range(len(BODIES)):
            for definer in DEFINERS:
                for ui in range(len(USES)):
                    for layout in LAYOUTS:
                        yield [bi, definer, ui, layout]
                for ui in range(len(USES)):
                    for wi in range(1, len(WRAPS)):
                        yield [bi, definer, ui, 'lines', wi]
                for ui in (0, 2, 6, 11):
                    for variant in VARIANTS[1:]:
                        yield [bi, definer, ui, 'lines', 0, variant]
                for pi in range(len(PAIR_USES)):
                    for wi in range(len(WRAPS) if tier != 'quick' else 2):
                        yield [bi, definer, -pi - 1, 'lines' if (pi + wi) % 2 else 'indented', wi]

    def judge(self, case):
        bi, definer, ui, layout = case[:4]
        built = build_before(case[:4]) if ui >= 0 and USES[ui] == ['before'] and len(case) == 4 else build(case)
        if built is None:
            return {'viol': [], 'out': 'skip', 'nt': False, 'tr': 1, 'cnt': {'skipped: shape does not apply to this definition': 1}}
        ctx, dtxt = built
        body = ctx.src()
        flows = ctx.flows()
        viol = []
        results = {}
        variant = case[5] if len(case) > 5 else 'std'
        extra = {}
        enc = 'utf-8'
        lt_pre = ''
        if variant == 'latin1':
            dtxt = dtxt + '\\newcommand{\\unusedq}{\u00e4\u00f6\u00fc}\n'
            extra = {'ienc': 'latin-1'}
            enc = 'latin-1'
        elif variant == 'nosp':
            extra = {'nosp': True}
            lt_pre = '\\newcommand{\\LTinput}[1]{}\n'
        pre = PRE if variant == 'pre' else ''
        if variant == 'extr':
            extra = {'extr': 'footnote'}
        tag = '%s:%s:%s' % (BODIES[bi][0], definer, '+'.join(USES[ui] if ui >= 0 else PAIR_USES[-ui - 1]))
        with open('ymcdefs.tex', 'w', encoding=enc) as f:
            f.write(dtxt)
        for route in ROUTES:
            if route == 'doc':
                prefix, opts = dtxt, dict({'pack': '*', 'lang': 'en'}, **extra)
            elif route == 'defs':
                prefix, opts = '', dict({'pack': '*', 'lang': 'en', 'defs': dtxt}, **extra)
            else:
                prefix, opts = lt_pre + '\\LTinput{ymcdefs.tex}\n', dict({'pack': '*', 'lang': 'en'}, **extra)
            src = pre + prefix + body
            o = impl.run_filter(src, opts)
            if o.kind != 'ok':
                viol.append({'clause': 'returns', 'sig': 'C09:no-result:%s' % route, 'detail': {'source': src, 'info': o.info}})
                continue
            plain, nums = o.result
            nums = list(nums)
            results[route] = (plain, [p if p <= len(pre) else p - len(prefix) for p in nums])
            det = {'route': route, 'source': src, 'plain': plain, 'definitions': dtxt}
            if o.stderr:
                viol.append({'clause': 'no diagnostic for well-formed definitions', 'sig': 'C09:stderr:' + tag, 'detail': dict(det, stderr=o.stderr[:200])})
                continue
            if pre or variant == 'extr':
                continue
            r = cat.Rendered()
            r.flows = flows
            al, prob = cat.align(r, plain)
            if prob:
                viol.append({'clause': 'expansion equals the substitution model (text, order, multiplicity)',
                             'sig': 'C09:text:%s:%s' % (route, tag), 'detail': dict(det, problem=repr(prob), model=repr(flows)[:600])})
                continue
            for s, i, ln in al:
                for j in range(ln):
                    p = nums[i + j] - len(prefix)
                    if s[0] == 'C' and p != s[2] + j + 1:
                        viol.append({'clause': 'argument text keeps its own offsets', 'sig': 'C09:argpos:%s:%s' % (route, tag),
                                     'detail': dict(det, segment=s, got=p)})
                        break
                    if s[0] == 'G':
                        nd = ctx.nodes[s[2]]
                        if not (nd['a'] < p <= nd['b']):
                            viol.append({'clause': 'body text maps into the call site', 'sig': 'C09:bodypos:%s:%s' % (route, tag),
                                         'detail': dict(det, segment=s[:2], got=p, span=[nd['a'] + 1, nd['b']])})
                            break
                else:
                    continue
                break
        if len(results) == 3:
            base = results['defs']
            for route in ('doc', 'ltinput'):
                if variant == 'extr' and route == 'ltinput':
                    continue        # with an extraction list every declared macro is inert, \LTinput too (documented in DESIGN 9.2)
                if results[route][0] != base[0]:
                    viol.append({'clause': 'same text whichever way the definitions are supplied; definition lines leave no text',
                                 'sig': 'C09:route-text:%s:%s' % (route, layout),
                                 'detail': {'definitions': dtxt, 'body': body, 'plain_defs': base[0], 'plain_' + route: results[route][0]}})
                elif results[route][1] != base[1]:
                    viol.append({'clause': 'positions differ by a constant between the supply routes',
                                 'sig': 'C09:route-pos:%s' % route,
                                 'detail': {'definitions': dtxt, 'body': body, 'map_defs': base[1], 'map_' + route: results[route][1]}})
        nt = BODIES[bi][1] > 0
        return {'viol': viol[:3], 'out': [results.get('doc'), results.get('defs')], 'nt': nt, 'tr': 1}

    def explain(self, case):
        built = build_before(case[:4]) if case[2] >= 0 and USES[case[2]] == ['before'] and len(case) == 4 else build(case)
        if not built:
            return 'shape does not apply'
        ctx, dtxt = built
        return 'definitions %r\nbody %r\nmodel %r' % (dtxt, ctx.src(), ctx.flows())


CHECK = C09()
