"""C17 - results do not depend on what was processed before.

Explicit-state exploration of call histories: every history up to the depth
bound over an event menu of (document, options) calls is replayed in a forked
child of a pristine worker; the result of the last call (and of its immediate
repetition) must equal the result of the same call made alone in a fresh
process.  Each edge also records the fingerprint (ymc/fingerprint.py) of the
interpreter before and after the call: the set of fingerprints is the state
space, and the graph is closed when the last depth adds no new fingerprint.
Same for sequences of requests to one initialised server (in process), with
conformance against a real --as-server process."""
import itertools
import json
import os
import pickle
import subprocess
import sys

from .. import catalogue as cat
from .. import core, impl, shell
from .. import fingerprint as fpm

GL = '\\gls@defglossaryentry{a}{text={alpha},plural={alphas},description={desc}}\n'
DEFS = '\\newcommand{\\zz}{Qd}\n\\usepackage{amsmath}\n'
# (name, source, options, multi_language)
EVENTS = [
    ('defmac', '\\newcommand{\\zz}{Q} \\zz', {'pack': ''}, False),
    ('usemac', 'A \\zz B', {'pack': ''}, False),
    ('glsdef', GL + 'X \\gls{a}', {'pack': '*'}, False),
    ('glsuse', 'X \\gls{a} Y \\Gls{a}', {'pack': '*'}, False),
    ('amsmath', '\\usepackage{amsmath} $a \\text{Wa}$', {'pack': ''}, False),
    ('text', '$a \\text{Wa}$ \\begin{align} a &= b\\end{align}', {'pack': ''}, False),
    ('babel', '\\usepackage[german]{babel} "a', {'pack': '', 'lang': 'en'}, False),
    ('quote', '"a "` \\foreignlanguage{german}{"a}', {'pack': '', 'lang': 'en'}, False),
    ('clsopt', '\\documentclass[ngerman]{article}\\usepackage{babel} "a', {'pack': '', 'lang': 'en'}, True),
    ('babelonly', '\\usepackage{babel} "a A', {'pack': '', 'lang': 'en'}, True),
    ('math', '$x$ $y$ \\[z\\] \\[u\\]', {'pack': ''}, False),
    ('enum', '\\begin{enumerate}\\item A\\begin{enumerate}\\item B', {'pack': ''}, False),
    ('item', '\\item C\\begin{enumerate}\\item D\\end{enumerate}', {'pack': ''}, False),
    ('crefdef', '\\usepackage[poorman]{cleveref}\\YYCleverefInput{ymc.sed}\\cref{ka}', {'pack': '*'}, False),
    ('crefuse', '\\usepackage[poorman]{cleveref} A \\cref{ka} B', {'pack': '*'}, False),
    ('thmdef', '\\newtheorem{satz}{Satz} \\begin{satz}[Eins] T \\end{satz}', {'pack': '*'}, False),
    ('thmuse', '\\documentclass{article}\\usepackage{nosuchpkg}\\newtheorem{lem}{Lemma} V \\begin{satz}[Zwei] Z \\end{satz}', {'pack': '*'}, False),
    ('redef', '\\renewcommand{\\ref}[1]{R} \\ref{x}', {'pack': ''}, False),
    ('ref', '\\ref{x} \\label{y} \\LaTeX', {'pack': ''}, False),
    ('nosp', '\\LTadd{A}\\LTskip{B}\n%%% LT-SKIP-BEGIN\nC\n%%% LT-SKIP-END\nD', {'pack': '', 'nosp': True}, False),
    ('sp', '\\LTadd{A}\\LTskip{B}\n%%% LT-SKIP-BEGIN\nC\n%%% LT-SKIP-END\nD', {'pack': ''}, False),
    ('seqs', '\\[a = b.\\] $c$', {'pack': '', 'seqs': True}, False),
    ('extr', 'A\\footnote{B} \\section{C}', {'pack': '', 'extr': 'footnote,section'}, False),
    ('foot', 'A\\footnote{B} \\section{C}', {'pack': ''}, False),
    ('unkn', 'A \\foo \\begin{bar}', {'pack': '', 'unkn': True}, False),
    ('repl', 'so dass A', {'pack': '', 'repl': ['so dass & sodass\n']}, False),
    ('replfile', 'B so dass A', {'pack': '', 'repl': 'FILE'}, False),
    ('defs', 'A \\zz $\\text{B}$', {'pack': '', 'defs': DEFS}, False),
    ('ml', '\\usepackage{babel} A \\foreignlanguage{german}{B} C \\foreignlanguage{german}{D} E', {'pack': '*', 'lang': 'en-GB'}, True),
    ('error', '$x \\begin{itemize} \\item[ \\verb|', {'pack': '*'}, False),
    ('dcls1', 'Consider \\begin{align}x\\end{align} as in YaLafi\\xspace here.', {'pack': 'amsmath,xspace', 'dcls': 'article'}, False),
    ('dcls2', 'Consider \\begin{align}x\\end{align} as in YaLafi\\xspace here.', {'pack': '', 'dcls': 'article'}, False),
    ('ru', '$x$ \\begin{proof} A \\end{proof}', {'pack': '*', 'lang': 'ru'}, False),
    ('ltinput', '\\LTinput{ymcdefs17.tex} \\zz', {'pack': ''}, False),
    ('latinuse', '\\usepackage{babel} A \\foreignlanguage{latin}{B} \\begin{otherlanguage}{klingon} C \\end{otherlanguage} D', {'pack': '*', 'lang': 'de-DE'}, True),
    ('latinopt', '\\usepackage[ngerman,latin]{babel} "a A \\foreignlanguage{latin}{B} C', {'pack': '*', 'lang': 'de-DE'}, True),
    ('crefother', '\\usepackage[poorman]{cleveref}\\YYCleverefInput{ymcb17.sed}A \\cref{ka} B \\cref{kz}', {'pack': '*'}, False),
    ('amsthm', '\\usepackage{amsthm} \\begin{proof} B \\end{proof}', {'pack': ''}, False),
    ('proofuse', '\\documentclass{article}\\usepackage{nosuchpkg} \\begin{proof} A \\end{proof} \\textcolor{red}{C}', {'pack': ''}, False),
    ('klingonopt', '\\documentclass[klingon]{article}\\usepackage{babel} "a A', {'pack': '*', 'lang': 'de-DE'}, True),
]
LTINPUT_FILE = '\\newcommand{\\zz}{Qi}\\usepackage{xcolor}\n'

# requests to the server emulation: (name, fields)
REQUESTS = [
    ('en', {'language': 'en-GB', 'text': 'A teh B $x$'}),
    ('de', {'language': 'de-DE', 'text': 'Ein "a teh $y$'}),
    ('disable', {'language': 'en-GB', 'text': 'A teh', 'disabledRules': 'X1'}),
    ('enabledonly', {'language': 'en-GB', 'text': 'A teh', 'enabledOnly': 'true', 'enabledRules': 'E1'}),
    ('defmac', {'language': 'en-GB', 'text': '\\newcommand{\\zz}{teh} \\zz'}),
    ('usemac', {'language': 'en-GB', 'text': 'A \\zz teh'}),
    ('glsdef', {'language': 'en-GB', 'text': GL + 'teh \\gls{a}'}),
    ('glsuse', {'language': 'en-GB', 'text': 'teh \\gls{a}'}),
    ('ru', {'language': 'ru-RU', 'text': '$x$ teh'}),
    ('cats', {'language': 'en-GB', 'text': 'teh', 'disabledCategories': 'C1', 'enabledCategories': 'C2'}),
    ('repl', {'language': 'en-GB', 'text': 'so dass teh so dass'}),
]
SERVER_ARGV = ['--lt-options', '~--disable X0 --enabledonly', '--single-letters', 'A|a||', '--equation-punctuation', 'all', '--replace', 'ymcrepl17.txt',
               '--define', 'ymcdefs17.tex']


def srv_answer(text, cmd):
    import re
    return shell.lt_answer([shell.lt_match(text, m.start(), 3, message='typo') for m in re.finditer('teh', text)])


_shared = {}


def call_event(ei):
    name, src, opts, ml = EVENTS[ei]
    if opts.get('repl') == 'FILE':
        # the replacement list as the command line tools read it; the same object is passed on every call
        from yalafi import tex2txt
        if 'repl' not in _shared:
            _shared['repl'] = tex2txt.read_replacements('ymcrepl17.txt', encoding='utf-8')
        opts = dict(opts, repl=_shared['repl'])
    old = sys.argv
    sys.argv = ['yalafi']       # warnings of the filter quote sys.argv[0]
    try:
        o = impl.run_filter(src, opts, ml=ml)
    finally:
        sys.argv = old
    return repr((o.kind, o.result, o.stderr, o.info))


def run_history(hist):
    """execute the history in this process; observation of the last call, its repetition, fingerprints"""
    for ei in hist[:-1]:
        call_event(ei)
    f0 = fpm.fingerprint()
    r1 = call_event(hist[-1])
    f1 = fpm.fingerprint()
    r2 = call_event(hist[-1])
    f2 = fpm.fingerprint()
    changed = sorted(k for k in f1[1] if f1[1][k] != f0[1].get(k))
    return {'r1': r1, 'r2': r2, 'f0': f0[0], 'f1': f1[0], 'f2': f2[0], 'changed_modules': changed}


def run_requests(hist):
    sess = shell.Session(SERVER_ARGV, srv_answer, cwd=os.getcwd())
    obs = None
    f0 = None
    for k, ri in enumerate(hist):
        if k == len(hist) - 1:
            f0 = fpm.fingerprint()
        sess.calls = []
        requ = {kk: [v] for kk, v in REQUESTS[ri][1].items()}
        val, err, code, exc = sess.request(requ)
        obs = repr((val, err, code, exc, [c for c, t in sess.calls], [t for c, t in sess.calls]))
    f1 = fpm.fingerprint()
    return {'r1': obs, 'r2': obs, 'f0': f0[0], 'f1': f1[0], 'f2': f1[0],
            'changed_modules': sorted(k for k in f1[1] if f1[1][k] != f0[1].get(k))}


def in_child(fn, arg):
    rd, wr = os.pipe()
    pid = os.fork()
    if pid == 0:
        try:
            os.close(rd)
            try:
                res = fn(arg)
            except BaseException as e:
                res = {'error': repr(e)}
            with os.fdopen(wr, 'wb') as f:
                pickle.dump(res, f)
        finally:
            os._exit(0)
    os.close(wr)
    with os.fdopen(rd, 'rb') as f:
        data = f.read()
    os.waitpid(pid, 0)
    return pickle.loads(data) if data else {'error': 'child died'}


def fresh_baseline(kind, idx):
    """the call made alone in a fresh interpreter"""
    p = subprocess.run([sys.executable, '-m', 'ymc.checks.c17', kind, str(idx)], cwd=core.VERIF, capture_output=True, text=True,
                       env=dict(os.environ, YMC_SCRATCH=os.environ.get('YMC_SCRATCH', ''), YMC_C17_CWD=os.getcwd()))
    if p.returncode != 0:
        raise core.HarnessError('baseline process failed: ' + p.stderr[-500:])
    return json.loads(p.stdout)


class C17:
    id = 'C17'
    level = 'model_checking'
    chunk = 8
    rule = ('states = call histories (event sequences) up to the depth bound; each edge = one call executed after its history in a forked '
            'child of a pristine worker, compared with the fresh-process baseline; non-trivial = history of length >= 2 (a call with a predecessor)')
    assumptions = [
        'the fingerprint covers all state that can influence a result: globals, defaults, closures and class attributes of yalafi.* modules; '
        'the differential comparison guards this up to the explored depth',
        'a forked child of a worker that has only imported yalafi is taken as the pristine interpreter; histories of length 1 compare it with a really fresh process',
        'files read by a call (sed file, \\LTinput file) are part of the call, as in the statement',
    ]

    def __init__(self):
        self.base = {}
        self.full_depth = {'e': 2, 'r': 3}

    def init_worker(self):
        d = core.scratch_dir()
        cat.write_aux_files(d)
        with open(os.path.join(d, 'ymcdefs17.tex'), 'w') as f:
            f.write(LTINPUT_FILE)
        with open(os.path.join(d, 'ymcrepl17.txt'), 'w') as f:
            f.write('# comment\nso dass & sodass\n')
        with open(os.path.join(d, 'ymcb17.sed'), 'w') as f:
            f.write('s/\\\\cref{kz}/Other/g\n')          # another document's sed file: it does not know label ka
        os.chdir(d)
        fpm.preimport()

    def prepare(self, tier, seed):
        """fresh-process baselines, computed before the workers are forked"""
        self.init_worker()
        self.full_depth = {'e': 2 if tier == 'quick' else 3, 'r': 3 if tier == 'quick' else 4}
        import concurrent.futures as cf
        with cf.ThreadPoolExecutor(16) as ex:
            evs = list(ex.map(lambda i: fresh_baseline('event', i), range(len(EVENTS))))
            rqs = list(ex.map(lambda i: fresh_baseline('request', i), range(len(REQUESTS))))
        for i, b in enumerate(evs):
            self.base[('e', i)] = b
        for i, b in enumerate(rqs):
            self.base[('r', i)] = b

    def bounds(self, tier):
        return {'events': [e[0] for e in EVENTS], 'depth_full': 2 if tier == 'quick' else 3,
                'requests': [r[0] for r in REQUESTS], 'request_depth': 3 if tier == 'quick' else 4,
                'real_server_sequences': 3}

    def cases(self, tier, seed):
        D = 2 if tier == 'quick' else 3
        n = len(EVENTS)
        for d in range(1, D + 1):
            for h in itertools.product(range(n), repeat=d):
                yield ['e'] + list(h)
        if tier == 'quick':
            # depth 3 behind the writer events (those that define, load or switch something)
            writers = [i for i, e in enumerate(EVENTS) if e[0] in ('defmac', 'glsdef', 'amsmath', 'babel', 'clsopt', 'crefdef', 'thmdef', 'redef',
                                                                  'dcls1', 'defs', 'ltinput', 'nosp', 'enum', 'ml', 'latinuse', 'latinopt')]
            for a in writers:
                for b in writers:
                    if a != b:
                        for c in range(n):
                            yield ['e', a, b, c]
        R = 3 if tier == 'quick' else 4
        for d in range(1, R + 1):
            for h in itertools.product(range(len(REQUESTS)), repeat=d):
                yield ['r'] + list(h)

    def judge(self, case):
        kind, hist = case[0], case[1:]
        key = (kind, hist[-1])
        if key not in self.base:
            self.base[key] = fresh_baseline('event' if kind == 'e' else 'request', hist[-1])
        base = self.base[key]
        res = in_child(run_history if kind == 'e' else run_requests, hist)
        names = [(EVENTS if kind == 'e' else REQUESTS)[i][0] for i in hist]
        if 'error' in res:
            return {'viol': [], 'out': res['error'], 'nt': False, 'tr': 1, 'harness': 'child failed: ' + res['error']}
        viol = []
        what = 'call' if kind == 'e' else 'request'
        if res['r1'] != base:
            viol.append({'clause': 'result equals the result of the same %s made alone in a fresh process' % what,
                         'sig': 'C17:differs-from-fresh:%s:%s' % (kind, names[-1]),
                         'detail': {'history': names, 'after_history': res['r1'][:1500], 'fresh_process': base[:1500],
                                    'state_changed_in': res['changed_modules']}})
        elif res['r2'] != base:
            viol.append({'clause': 'result is the same when the call is repeated', 'sig': 'C17:differs-when-repeated:%s:%s' % (kind, names[-1]),
                         'detail': {'history': names, 'first': res['r1'][:1500], 'repeated': res['r2'][:1500]}})
        d = len(hist)
        full = self.full_depth.get(kind, 2)
        # a state is expanded (all its events explored) if it is reached by a history shorter than the full depth
        sets = {'fingerprints': [res['f0'], res['f1'], res['f2']], 'edges': [(res['f0'], kind, hist[-1], res['f1'])],
                'expanded_states': [res['f0']] + ([res['f1'], res['f2']] if d < full else [])}
        return {'viol': viol, 'out': [res['r1'], res['f1']], 'nt': len(hist) >= 2, 'tr': 1, 'sets': sets,
                'cnt': {'calls_executed': 2 * len(hist) if kind == 'e' else len(hist)}}

    def conformance_picks(self, seed):
        """sequences of requests to a real --as-server process vs. each request alone in a fresh process"""
        return [['real-server', 6, 7, 1], ['real-server', 4, 5, 0], ['real-server', 2, 10, 10]]

    def finish(self, ctx):
        self.init_worker()
        n = 0
        viol = []
        for case in self.conformance_picks(ctx['seed']):
            k, vs = self.conformance_one(case)
            n += k
            viol += [(case, v) for v in vs]
        st = ctx['stats']['sets']
        closed = len(st.get('fingerprints', ())) == len(st.get('expanded_states', ()))
        return {'conformance_replays': n, 'viol': viol, 'state_graph_closed': closed,
                'state_graph': 'nodes = distinct fingerprints (see distinct.fingerprints), edges = distinct (fingerprint, call, fingerprint)'}

    def conformance_one(self, case):
        seq = case[1:]
        d = os.path.join(core.scratch_dir(), 'srv17')
        os.makedirs(d, exist_ok=True)
        for name in ('ymcdefs17.tex', 'ymcrepl17.txt'):
            with open(name) as f, open(os.path.join(d, name), 'w') as g:
                g.write(f.read())
        viol = []
        n = 0
        got = self.real_server_seq(seq, d)
        for ri, val in zip(seq, got):
            alone = self.real_server_seq([ri], d)[0]
            n += 1
            if val != alone:
                viol.append({'clause': 'answer of a real --as-server process does not depend on earlier requests',
                             'sig': 'C17:real-server:' + REQUESTS[ri][0],
                             'detail': {'sequence': [REQUESTS[i][0] for i in seq], 'in_sequence': val, 'alone': alone}})
        return n, viol

    def real_server_seq(self, seq, d):
        import socket
        import time
        import urllib.parse
        import urllib.request
        s = socket.socket()
        s.bind(('localhost', 0))
        port = s.getsockname()[1]
        s.close()
        lt = os.path.join(d, 'fakelt17.py')
        with open(lt, 'w') as f:
            f.write('#!%s\nimport sys, re, json\nt = sys.stdin.buffer.read().decode("utf-8")\n'
                    'ms = [{"message": "typo " + " ".join(sys.argv[1:]), "offset": m.start(), "length": 3, "replacements": [], '
                    '"context": {"text": t[:20].replace(chr(10), " "), "offset": 0, "length": 3}, "rule": {"id": "R", "category": {"name": "C"}}} '
                    'for m in re.finditer("teh", t)]\nsys.stdout.write(json.dumps({"matches": ms}))\n' % sys.executable)
        os.chmod(lt, 0o755)
        p = subprocess.Popen([sys.executable, '-m', 'yalafi.shell', '--no-config', '--lt-command', lt] + SERVER_ARGV + ['--as-server', str(port)],
                             cwd=d, stdout=subprocess.DEVNULL, stderr=subprocess.DEVNULL, env=dict(os.environ, PYTHONPATH=core.REPO))
        out = []
        try:
            for ri in seq:
                data = urllib.parse.urlencode(REQUESTS[ri][1]).encode('ascii')
                val = None
                for attempt in range(300):
                    try:
                        with urllib.request.urlopen('http://localhost:%d/v2/check' % port, data=data, timeout=60) as r:
                            val = json.loads(r.read().decode('ascii'))
                        break
                    except OSError:
                        if p.poll() is not None:
                            break
                        time.sleep(0.1)
                if val is None:
                    raise core.HarnessError('the real --as-server process did not answer (not a property violation)')
                out.append(val)
        finally:
            p.terminate()
            p.wait()
        return out

    def explain(self, case):
        kind, hist = case[0], case[1:]
        if kind == 'real-server':
            kind = 'r'
        if kind == 'e':
            return 'history of calls:\n' + '\n'.join('  %s: tex2txt(%r, %r, multi_language=%r)' % e for e in (EVENTS[i] for i in hist))
        return 'server %r, history of requests:\n' % SERVER_ARGV + '\n'.join('  %s: %r' % REQUESTS[i] for i in hist)


CHECK = C17()

if __name__ == '__main__':
    # fresh-process baseline: python -m ymc.checks.c17 event|request <index>
    os.chdir(os.environ.get('YMC_C17_CWD') or '.')
    kind, idx = sys.argv[1], int(sys.argv[2])
    if kind == 'event':
        print(json.dumps(call_event(idx)))
    else:
        print(json.dumps(run_requests([idx])['r1']))
