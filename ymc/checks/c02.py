"""C02 - text copied from the document maps to exactly the offset where it stands."""
from .. import catalogue as cat
from .. import catcheck

EXTRA_LAYOUTS = ['\r\n', ' \n', '\n  ', ' \t ']


class C02:
    id = 'C02'
    level = 'model_checking'
    chunk = 150
    rule = ('states = catalogue documents (forest x layout x language); every literal word occurrence is one obligation; '
            'non-trivial = at least one word stands inside or behind a construct (so its offset is not trivially the '
            'identity of a plain-text prefix) and the filter returned a text')
    assumptions = [
        'words W..q are unique, so every copy in the output can be located by search without predicting white space',
        'the filter never inspects the letters of a word',
    ]
    init_worker = staticmethod(catcheck.init_worker)
    explain = staticmethod(catcheck.explain)

    def bounds(self, tier):
        b = catcheck.bounds(tier)
        b['extra_layouts_for_n1'] = EXTRA_LAYOUTS
        return b

    def cases(self, tier, seed):
        yield from catcheck.cases(tier, seed)
        # line-removal / white-space paths: every single construct and every pair with a vanishing
        # or verbatim neighbour in layouts with CR LF, trailing blanks, indentation, tabs
        for n in (1, 2):
            for f in cat.forests(cat.ALL, n):
                if n == 2 and not any(cat.META[x]['cls'] in ('hidden', 'verbatim') for x in cat.names_in(f)):
                    continue
                for sep in EXTRA_LAYOUTS:
                    for lang in catcheck.langs_for(f):
                        yield [f, sep, lang]

    def judge(self, case):
        r, o, skip = catcheck.run_case(case)
        if skip:
            return {'viol': [], 'out': 'skip', 'nt': False, 'tr': 1, 'cnt': {'skipped:' + skip: 1}}
        if o.kind != 'ok':
            return {'viol': [{'clause': 'returns', 'sig': 'C02:no-result:' + o.kind, 'detail': o.info}],
                    'out': o.info, 'nt': True, 'tr': 1}
        plain, nums = o.result
        nums = list(nums)
        viol = []
        obligations = 0
        offs = {w: (off, path) for w, off, fl, path in r.words}
        again = r.facts.get('printed_again', ())     # words a remembering macro prints a second time, as generated text
        seen = set()
        for m in cat.WORD_RE.finditer(plain):
            w = m.group(0)
            if w not in offs or (w in again and w in seen):
                continue
            seen.add(w)
            off, path = offs[w]
            obligations += 1
            got = nums[m.start():m.end()]
            exp = list(range(off + 1, off + 1 + len(w)))
            if got != exp:
                where = '>'.join(r.nodes[i]['name'] for i in path[-2:]) or 'top'
                prev = self.prev_construct(r, off)
                viol.append({'clause': 'copied word carries the offsets where it stands',
                             'sig': 'C02:word:%s:after=%s' % (where, prev),
                             'detail': {'source': r.src, 'plain': plain, 'word': w, 'got': got, 'expected': exp}})
                break
        al, prob = cat.align(r, plain)
        for s, i, ln in al:
            if s[0] == 'S':
                obligations += 1
                if any(nums[i + j] != s[2] + 1 for j in range(ln)):
                    viol.append({'clause': 'replaced sequence maps to the first character of the sequence',
                                 'sig': 'C02:subst:' + repr(r.src[s[2]:s[2] + 2]),
                                 'detail': {'source': r.src, 'plain': plain, 'segment': s, 'got': nums[i:i + ln]}})
                    break
            elif s[0] == 'C' and not cat.WORD_RE.fullmatch(s[1]):
                obligations += 1
                if nums[i:i + ln] != list(range(s[2] + 1, s[2] + 1 + ln)):
                    n = catcheck.innermost(r, s[2])
                    viol.append({'clause': 'copied characters carry their offsets',
                                 'sig': 'C02:copy:' + (r.nodes[n]['name'] if n is not None else 'top'),
                                 'detail': {'source': r.src, 'plain': plain, 'segment': s, 'got': nums[i:i + ln]}})
                    break
        cnt = {'evaluations': obligations}
        if prob:
            cnt['unaligned (text differs from model: judged by C03)'] = 1
        return {'viol': viol, 'out': [plain, nums], 'nt': len(r.nodes) > 0, 'tr': 1, 'cnt': cnt}

    def prev_construct(self, r, off):
        best = None
        for nd in r.nodes:
            if nd['b'] <= off and (best is None or nd['b'] > best['b']):
                best = nd
        return best['name'] if best else 'start'


CHECK = C02()
