"""C20 - the shell's own checks (--single-letters, --equation-punctuation).

checks.create_single_letter_matches / create_equation_punct_messages are
driven with all texts up to a bound; the set of flagged offsets must equal a
reference matcher written without `re`, and offset/length/context must select
the same characters."""
import itertools
import types

from .. import impl  # noqa: F401  (sys.path)

# ---------------------------------------------------------------- single letters
SL_ALPHA = ['a', 'B', '\u00e4', '1', '_', ' ', '.', '-', '\u00a0', '\n', 'x']
SL_ACCEPT = ['', 'a', 'B|a', 'a.', 'a b', 'a~B', 'x|', '.a', 'a-', '\u00e4|B', 'a.|a', 'x||U-U-U|B-B-B']


def isword(c):
    return c.isalnum() or c == '_'


def isletter(c):
    return isword(c) and not c.isdigit() and c != '_'


def occ(text, pat):
    p = pat.replace('~', '\u00a0').replace('\\,', '\u202f')
    res = []
    for i in range(len(text) - len(p) + 1):
        if text[i:i + len(p)] != p:
            continue
        if p[0].isalpha() and i > 0 and isword(text[i - 1]):
            continue
        j = i + len(p)
        if p[-1].isalpha() and j < len(text) and isword(text[j]):
            continue
        res.append((i, j))
    return res


def sl_model(text, accept):
    pats = [p for p in accept.split('|') if p]
    occs = [o for p in pats for o in occ(text, p)]
    so = sorted(set(occs))
    for a, b in zip(so, so[1:]):
        if b[0] < a[1]:
            return None         # overlapping accepted occurrences: outside the model
    res = []
    for i, c in enumerate(text):
        if not isletter(c):
            continue
        if i > 0 and isword(text[i - 1]):
            continue
        if i + 1 < len(text) and isword(text[i + 1]):
            continue
        if any(a <= i < b for a, b in occs):
            continue
        res.append(i)
    return res


# ---------------------------------------------------------------- equation punctuation
DISP = ['U-U-U', 'V-V-V']
INL = ['B-B-B', 'C-C-C']
TOK = {'D': 'U-U-U', 'E': 'V-V-V', 'I': 'B-B-B', '.': '.', ',': ',', ';': ';', ':': ':', 'l': 'word', 'u': 'Word',
       ' ': ' ', 'n': '\n', 'x': 'x1', '-': '-'}
MODES = {'displayed': 'DE', 'inline': 'I', 'all': 'DEI'}


def ep_model(seq, mode):
    coll = MODES[mode]
    text = ''.join(TOK[k] for k in seq)
    pos = []
    o = 0
    for k in seq:
        pos.append(o)
        o += len(TOK[k])
    out = []
    for i, k in enumerate(seq):
        if k not in coll:
            continue
        a = pos[i]
        b = a + len(TOK[k])
        if a > 0 and isword(text[a - 1]):
            continue
        if b < len(text) and isword(text[b]):
            continue
        j = b
        while j < len(text) and text[j].isspace():
            j += 1
        if j < len(text) and text[j] == '.':
            continue
        if j < len(text) and text[j] in ',;:':
            j += 1
            while j < len(text) and text[j].isspace():
                j += 1
        nxt = False
        for kk in coll:
            t = TOK[kk]
            if text.startswith(t, j) and not (j + len(t) < len(text) and isword(text[j + len(t)])):
                nxt = True
        if nxt:
            continue
        w = ''
        jj = j
        while jj < len(text) and isletter(text[jj]):
            w += text[jj]
            jj += 1
        if w and w[0].islower():
            continue
        out.append(a)
    return text, out


class C20:
    id = 'C20'
    level = 'model_checking'
    design_ref = 'DESIGN.md section 3, C20'
    chunk = 400
    rule = ('states = all texts (single letters: judged under every accept list; equation punctuation: token '
            'sequences x modes); non-trivial = the model flags at least one place or an accepted pattern covers a letter')
    assumptions = [
        'texts in which two occurrences of accepted patterns overlap each other are outside the model (statement silent)',
        'placeholders glued to a letter, digit or hyphen are different words and are not generated',
        'letters a B ä x stand for all letters; U-U-U/V-V-V and B-B-B/C-C-C for the display / inline collections',
    ]

    def bounds(self, tier):
        return {'single_letters': {'alphabet': SL_ALPHA, 'max_len': 5 if tier == 'quick' else 6, 'accept_lists': SL_ACCEPT},
                'equation_punctuation': {'tokens': list(TOK.values()), 'max_len': 4 if tier == 'quick' else 5,
                                         'modes': list(MODES)}}

    def cases(self, tier, seed):
        L = 5 if tier == 'quick' else 6
        for k in range(L + 1):
            for c in itertools.product(SL_ALPHA, repeat=k):
                yield ['s', ''.join(c)]
        keys = list(TOK)
        Le = 4 if tier == 'quick' else 5
        for k in range(1, Le + 1):
            for seq in itertools.product(keys, repeat=k):
                if not any(x in 'DEI' for x in seq):
                    continue
                if any(seq[i] in 'DEIlux-' and seq[i + 1] in 'DEIlux-' for i in range(len(seq) - 1)):
                    continue    # glued: a different word
                yield ['e', ''.join(seq)]

    def judge(self, case):
        from yalafi.shell import checks
        kind, text = case
        viol = []
        outs = []
        nt = False
        if kind == 's':
            for acc in SL_ACCEPT:
                exp = sl_model(text, acc)
                if exp is None:
                    continue
                got = checks.create_single_letter_matches(text, types.SimpleNamespace(single_letters=acc))
                g = [m['offset'] for m in got]
                outs.append(g)
                if exp or any(p for p in acc.split('|') if p and occ(text, p)):
                    nt = True
                if g != exp:
                    viol.append({'clause': 'flagged offsets == isolated letters not covered by an accepted pattern',
                                 'sig': 'C20:single:offsets:' + ('extra' if set(g) - set(exp) else 'missing'),
                                 'detail': {'text': text, 'accept': acc, 'got': g, 'expected': exp}})
                viol += self.ctx_check(got, text, 1, 'single', acc)
        else:
            seq = text
            for mode, coll in MODES.items():
                if mode != 'all' and any(k in 'DEI' and k not in coll for k in seq):
                    continue
                txt, exp = ep_model(seq, mode)
                cmd = types.SimpleNamespace(equation_punctuation=mode)
                got = checks.create_equation_punct_messages(txt, cmd, '|'.join(DISP), '|'.join(INL), '|'.join(DISP + INL))
                g = [m['offset'] for m in got]
                outs.append(g)
                nt = nt or bool(exp)
                if g != exp:
                    viol.append({'clause': 'flagged placeholders == those not followed by . / lower-case word / placeholder',
                                 'sig': 'C20:equ:%s:%s' % (mode, 'extra' if set(g) - set(exp) else 'missing'),
                                 'detail': {'text': txt, 'mode': mode, 'got': g, 'expected': exp}})
                for m in got:
                    sel = txt[m['offset']:m['offset'] + m['length']]
                    if not any(sel.startswith(p) for p in DISP + INL):
                        viol.append({'clause': 'offset/length select the offending placeholder', 'sig': 'C20:equ:select',
                                     'detail': {'text': txt, 'match': m}})
                viol += self.ctx_check(got, txt, None, 'equ', mode)
        return {'viol': viol, 'out': outs, 'nt': nt, 'tr': 1}

    def ctx_check(self, got, text, length, what, cfg):
        viol = []
        for m in got:
            c = m['context']
            sel = text[m['offset']:m['offset'] + m['length']]
            mark = c['text'][c['offset']:c['offset'] + c['length']]
            if (length is not None and m['length'] != length) or mark != sel.replace('\n', ' ').replace('\t', ' ') \
                    or not (0 <= m['offset'] and m['offset'] + m['length'] <= len(text)):
                viol.append({'clause': 'context excerpt marks the same characters as offset/length',
                             'sig': 'C20:%s:context' % what,
                             'detail': {'text': text, 'cfg': cfg, 'match': m, 'selected': sel, 'marked': mark}})
        return viol

    def explain(self, case):
        kind, text = case
        if kind == 's':
            return 'single letters: text %r; accept lists %r' % (text, SL_ACCEPT)
        return 'equation punctuation: tokens %r -> text %r' % (text, ''.join(TOK[k] for k in text))


CHECK = C20()
