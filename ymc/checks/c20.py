"""C20 - the shell's own checks (--single-letters, --equation-punctuation).

checks.create_single_letter_matches / create_equation_punct_messages are
driven with all texts up to a bound; the set of flagged offsets must equal a
reference matcher written without `re`, and offset/length/context must select
the same characters."""
import itertools
import types

from .. import impl  # noqa: F401  (sys.path)

# ---------------------------------------------------------------- single letters
SL_ALPHA = ['a', 'B', '\u00e4', '1', '_', ' ', '.', '-', '\u00a0', '\n', 'x']
SL_ACCEPT = ['', 'a', 'B|a', 'a.', 'a b', 'a~B', 'x|', '.a', 'a-', '\u00e4|B', 'a.|a', 'x||U-U-U|B-B-B']


def isword(c):
    return c.isalnum() or c == '_'


def isletter(c):
    return isword(c) and not c.isdigit() and c != '_'


def occ(text, pat):
    p = pat.replace('~', '\u00a0').replace('\\,', '\u202f')
    res = []
    for i in range(len(text) - len(p) + 1):
        if text[i:i + len(p)] != p:
            continue
        if p[0].isalpha() and i > 0 and isword(text[i - 1]):
            continue
        j = i + len(p)
        if p[-1].isalpha() and j < len(text) and isword(text[j]):
            continue
        res.append((i, j))
    return res


def sl_model(text, accept):
    pats = [p for p in accept.split('|') if p]
    occs = [o for p in pats for o in occ(text, p)]
    so = sorted(set(occs))
    for a, b in zip(so, so[1:]):
        if b[0] < a[1]:
            return None         # overlapping accepted occurrences: outside the model
    res = []
    for i, c in enumerate(text):
        if not isletter(c):
            continue
        if i > 0 and isword(text[i - 1]):
            continue
        if i + 1 < len(text) and isword(text[i + 1]):
            continue
        if any(a <= i < b for a, b in occs):
            continue
        res.append(i)
    return res


# ---------------------------------------------------------------- equation punctuation
DISP = ['U-U-U', 'V-V-V']
INL = ['B-B-B', 'C-C-C']
TOK = {'D': 'U-U-U', 'E': 'V-V-V', 'I': 'B-B-B', '.': '.', ',': ',', ';': ';', ':': ':', 'l': 'word', 'u': 'Word',
       ' ': ' ', 'n': '\n', 'x': 'x1', '-': '-'}
MODES = {'displayed': 'DE', 'inline': 'I', 'all': 'DEI'}


def ep_model(seq, mode):
    coll = MODES[mode]
    text = ''.join(TOK[k] for k in seq)
    pos = []
    o = 0
    for k in seq:
        pos.append(o)
        o += len(TOK[k])
    out = []
    for i, k in enumerate(seq):
        if k not in coll:
            continue
        a = pos[i]
        b = a + len(TOK[k])
        if a > 0 and isword(text[a - 1]):
            continue
        if b < len(text) and isword(text[b]):
            continue
        j = b
        while j < len(text) and text[j].isspace():
            j += 1
        if j < len(text) and text[j] == '.':
            continue
        if j < len(text) and text[j] in ',;:':
            j += 1
            while j < len(text) and text[j].isspace():
                j += 1
        nxt = False
        for kk in coll:
            t = TOK[kk]
            if text.startswith(t, j) and not (j + len(t) < len(text) and isword(text[j + len(t)])):
                nxt = True
        if nxt:
            continue
        w = ''
        jj = j
        while jj < len(text) and isletter(text[jj]):
            w += text[jj]
            jj += 1
        if w and w[0].islower():
            continue
        out.append(a)
    return text, out


# ---------------------------------------------------------------- end to end through the shell

E2E_DOCS = [
    'Let $x$ be given. Then $y$ Holds and $z$, where $u$ is a point A or b.\n',
    '\\usepackage{babel}\nWe see \\foreignlanguage{german}{Ja} Appears here, and \\foreignlanguage{german}{Nein} follows. Also $a$ Is it.\n',
    'Thus\n\\begin{equation} a = b \\end{equation}\nWhere c is d. And \\[e\\] Then f.\n',
    '\\usepackage{babel}\n\\selectlanguage{german}Ein A und $x$ Oder \\foreignlanguage{english}{the b} Z.\n',
    'A e.g. B i.e. c $q$. D\n',
]
E2E_SL = [None, 'A|a', 'A|a||', 'e.g.|i.e.||']
E2E_EP = [None, 'displayed', 'inline', 'all']
INL_EN = ['B-B-B', 'C-C-C', 'D-D-D', 'E-E-E', 'F-F-F', 'G-G-G']
DSP_EN = ['U-U-U', 'V-V-V', 'W-W-W', 'X-X-X', 'Y-Y-Y', 'Z-Z-Z']
LCR_EN = ['K-K-K', 'L-L-L', 'M-M-M', 'N-N-N']


def ep_text_model(text, members):
    """equation placeholders (whole words from `members`) that are not followed by a full stop, nor - optionally after , ; : -
    by another placeholder or a lower-case word"""
    out = []
    i = 0
    while i < len(text):
        m = next((p for p in members if text.startswith(p, i)), None)
        if not m or (i > 0 and isword(text[i - 1])) or (i + len(m) < len(text) and isword(text[i + len(m)])):
            i += 1
            continue
        j = i + len(m)
        while j < len(text) and text[j].isspace():
            j += 1
        ok = False
        if j < len(text) and text[j] == '.':
            ok = True
        else:
            if j < len(text) and text[j] in ',;:':
                j += 1
                while j < len(text) and text[j].isspace():
                    j += 1
            nxt = next((p for p in members if text.startswith(p, j)), None)
            if nxt and not (j + len(nxt) < len(text) and isword(text[j + len(nxt)])):
                ok = True
            else:
                w = ''
                jj = j
                while jj < len(text) and isletter(text[jj]):
                    w += text[jj]
                    jj += 1
                ok = bool(w) and w[0].islower()
        if not ok:
            out.append(i)
        i += len(m)
    return out


class C20:
    id = 'C20'
    level = 'model_checking'
    design_ref = 'DESIGN.md section 3, C20'
    chunk = 400
    rule = ('states = all texts (single letters: judged under every accept list; equation punctuation: token '
            'sequences x modes); non-trivial = the model flags at least one place or an accepted pattern covers a letter')
    assumptions = [
        'texts in which two occurrences of accepted patterns overlap each other are outside the model (statement silent)',
        'placeholders glued to a letter, digit or hyphen are different words and are not generated',
        'letters a B ä x stand for all letters; U-U-U/V-V-V and B-B-B/C-C-C for the display / inline collections',
    ]

    def init_worker(self):
        import os
        from .. import core
        os.chdir(core.scratch_dir())

    def judge_e2e(self, case):
        """the same checks through the real shell: options as the user gives them, texts as the filter produces them"""
        import os
        from .. import core, shell
        _, di, si, ei, ml = case
        d = core.scratch_dir()
        with open(os.path.join(d, 'e.tex'), 'w') as f:
            f.write(E2E_DOCS[di])
        argv = ['--language', 'en-GB']
        if E2E_SL[si] is not None:
            argv += ['--single-letters', E2E_SL[si]]
        if E2E_EP[ei] is not None:
            argv += ['--equation-punctuation', E2E_EP[ei]]
        if ml:
            argv += ['--multi-language']
        sess = shell.Session(argv + ['e.tex'], lambda t, c: shell.lt_answer([]), cwd=d)
        val, err, code, exc = sess._guarded(lambda: sess.proofreader.run_proofreader('e.tex'))
        det = {'source': E2E_DOCS[di], 'argv': argv}
        if val is None:
            return {'viol': [{'clause': 'shell runs its checks', 'sig': 'C20:e2e:no-result', 'detail': dict(det, stderr=err[-300:], exc=exc, code=code)}],
                    'out': 'none', 'nt': True, 'tr': 1}
        tex, plain_tot, charmap, matches = val
        parts = [t for c, t in sess.calls]
        exp = []
        shift = 0
        for t in parts:
            if E2E_SL[si] is not None:
                acc = E2E_SL[si]
                if acc.endswith('||'):
                    acc += '|'.join(INL_EN + DSP_EN + (LCR_EN if ml else []))
                m = sl_model(t, acc)
                if m is None:
                    return {'viol': [], 'out': 'skip', 'nt': False, 'tr': 1, 'cnt': {'skipped: overlapping accepted occurrences': 1}}
                exp += [(shift + o, 'PRIVATE::SINGLE_LETTER') for o in m]
            if E2E_EP[ei] is not None:
                members = {'displayed': DSP_EN, 'inline': INL_EN, 'all': DSP_EN + INL_EN}[E2E_EP[ei]]
                exp += [(shift + o, 'PRIVATE::EQUATION_PUNCTUATION') for o in ep_text_model(t, members)]
            shift += len(t) + 2
        got = sorted((m['offset'], m['rule']['id']) for m in matches)
        viol = []
        if got != sorted(exp):
            extra = sorted(set(got) - set(exp))
            kind = ('extra:' + extra[0][1]) if extra else 'missing'
            viol.append({'clause': 'messages of the shell\'s own checks == the models applied to each submitted part',
                         'sig': 'C20:e2e:%s:%s' % (kind, 'ml' if ml else 'single'),
                         'detail': dict(det, parts=parts, got=got, expected=sorted(exp),
                                        marked=[plain_tot[o:o + 12] for o, r in extra])})
        for m in matches:
            sel = plain_tot[m['offset']:m['offset'] + m['length']]
            c = m['context']
            if c['text'][c['offset']:c['offset'] + c['length']] != sel.replace('\n', ' '):
                viol.append({'clause': 'context excerpt marks the same characters', 'sig': 'C20:e2e:context', 'detail': dict(det, match=m, selected=sel)})
        return {'viol': viol[:2], 'out': got, 'nt': bool(exp), 'tr': 1}

    def bounds(self, tier):
        return {'end_to_end': {'documents': len(E2E_DOCS), 'single_letters': E2E_SL, 'equation_punctuation': E2E_EP, 'multi_language': [False, True]},
                'single_letters': {'alphabet': SL_ALPHA, 'max_len': 5 if tier == 'quick' else 6, 'accept_lists': SL_ACCEPT},
                'equation_punctuation': {'tokens': list(TOK.values()), 'max_len': 4 if tier == 'quick' else 5,
                                         'modes': list(MODES)}}

    def cases(self, tier, seed):
        L = 5 if tier == 'quick' else 6
        for k in range(L + 1):
            for c in itertools.product(SL_ALPHA, repeat=k):
                yield ['s', ''.join(c)]
        keys = list(TOK)
        Le = 4 if tier == 'quick' else 5
        for k in range(1, Le + 1):
            for seq in itertools.product(keys, repeat=k):
                if not any(x in 'DEI' for x in seq):
                    continue
                if any(seq[i] in 'DEIlux-' and seq[i + 1] in 'DEIlux-' for i in range(len(seq) - 1)):
                    continue    # glued: a different word
                yield ['e', ''.join(seq)]
        for di in range(len(E2E_DOCS)):
            for si in range(len(E2E_SL)):
                for ei in range(len(E2E_EP)):
                    for ml in (0, 1):
                        if si or ei:
                            yield ['shell', di, si, ei, ml]

    def judge(self, case):
        from yalafi.shell import checks
        if case[0] == 'shell':
            return self.judge_e2e(case)
        kind, text = case
        viol = []
        outs = []
        nt = False
        if kind == 's':
            for acc in SL_ACCEPT:
                exp = sl_model(text, acc)
                if exp is None:
                    continue
                got = checks.create_single_letter_matches(text, types.SimpleNamespace(single_letters=acc))
                g = [m['offset'] for m in got]
                outs.append(g)
                if exp or any(p for p in acc.split('|') if p and occ(text, p)):
                    nt = True
                if g != exp:
                    viol.append({'clause': 'flagged offsets == isolated letters not covered by an accepted pattern',
                                 'sig': 'C20:single:offsets:' + ('extra' if set(g) - set(exp) else 'missing'),
                                 'detail': {'text': text, 'accept': acc, 'got': g, 'expected': exp}})
                viol += self.ctx_check(got, text, 1, 'single', acc)
        else:
            seq = text
            for mode, coll in MODES.items():
                if mode != 'all' and any(k in 'DEI' and k not in coll for k in seq):
                    continue
                txt, exp = ep_model(seq, mode)
                cmd = types.SimpleNamespace(equation_punctuation=mode)
                got = checks.create_equation_punct_messages(txt, cmd, '|'.join(DISP), '|'.join(INL), '|'.join(DISP + INL))
                g = [m['offset'] for m in got]
                outs.append(g)
                nt = nt or bool(exp)
                if g != exp:
                    viol.append({'clause': 'flagged placeholders == those not followed by . / lower-case word / placeholder',
                                 'sig': 'C20:equ:%s:%s' % (mode, 'extra' if set(g) - set(exp) else 'missing'),
                                 'detail': {'text': txt, 'mode': mode, 'got': g, 'expected': exp}})
                for m in got:
                    sel = txt[m['offset']:m['offset'] + m['length']]
                    if not any(sel.startswith(p) for p in DISP + INL):
                        viol.append({'clause': 'offset/length select the offending placeholder', 'sig': 'C20:equ:select',
                                     'detail': {'text': txt, 'match': m}})
                viol += self.ctx_check(got, txt, None, 'equ', mode)
        return {'viol': viol, 'out': outs, 'nt': nt, 'tr': 1}

    def ctx_check(self, got, text, length, what, cfg):
        viol = []
        for m in got:
            c = m['context']
            sel = text[m['offset']:m['offset'] + m['length']]
            mark = c['text'][c['offset']:c['offset'] + c['length']]
            if (length is not None and m['length'] != length) or mark != sel.replace('\n', ' ').replace('\t', ' ') \
                    or not (0 <= m['offset'] and m['offset'] + m['length'] <= len(text)):
                viol.append({'clause': 'context excerpt marks the same characters as offset/length',
                             'sig': 'C20:%s:context' % what,
                             'detail': {'text': text, 'cfg': cfg, 'match': m, 'selected': sel, 'marked': mark}})
        return viol

    def explain(self, case):
        if case[0] == 'shell':
            return 'document %r\n--single-letters %r --equation-punctuation %r multi-language %r' % (
                E2E_DOCS[case[1]], E2E_SL[case[2]], E2E_EP[case[3]], bool(case[4]))
        kind, text = case
        if kind == 's':
            return 'single letters: text %r; accept lists %r' % (text, SL_ACCEPT)
        return 'equation punctuation: tokens %r -> text %r' % (text, ''.join(TOK[k] for k in text))


CHECK = C20()
