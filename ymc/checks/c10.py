"""C10 - inline maths becomes one rotating placeholder with its punctuation, nothing else.

The output characters that map into the source span of a formula are, by the
statement, exactly its rendering: [blank] placeholder [punctuation] [blank].
A counter model per placeholder collection predicts the rotation."""
import itertools
import re

from .. import impl

COLL = {'en': ['B-B-B', 'C-C-C', 'D-D-D', 'E-E-E', 'F-F-F', 'G-G-G'],
        'ru': ['Б-Б-Б', 'В-В-В', 'Г-Г-Г', 'Д-Д-Д', 'Е-Е-Е', 'Ж-Ж-Ж']}
COLL['de'] = COLL['en']
LT = {'german': 'de-DE', 'english': 'en-GB', 'russian': 'ru-RU', 'french': 'fr'}

# atoms: (source, kind)  kind: v visible, s maths space, p punctuation
ATOMS = [('a', 'v'), ('1', 'v'), ('+', 'v'), ('=', 'v'), ('\\le ', 'v'), ('_1', 'v'), ('^{2}', 'v'), ('\\frac{a}{b}', 'v'),
         ('\\alpha ', 'v'), ('{a}', 'v'), ('<', 'v'), ('\\,', 's'), ('\\;', 's'), ('.', 'p'), (',', 'p'), (';', 'p'), (':', 'p')]
MENU = ['a', 'b.', '\\,c', '+', '\\alpha_1,', 'd\\;', '<', 'x^{2};']


def coll_key(lang):
    k = lang[:2].lower()
    return k if k in ('en', 'de', 'ru') else 'en'


def body_model(atoms):
    """-> (leading blank, punctuation or '', trailing blank)"""
    kinds = [k for _, k in atoms]
    lead = kinds[0] == 's'
    trail = kinds[-1] == 's'
    nons = [a for a in atoms if a[1] != 's']
    punct = nons[-1][0] if nons and nons[-1][1] == 'p' else ''
    return lead, punct, trail


def menu_model(body):
    lead = body.startswith('\\,') or body.startswith('\\;')
    trail = body.endswith('\\,') or body.endswith('\\;')
    core = body
    while core.endswith('\\,') or core.endswith('\\;'):
        core = core[:-2]
    punct = core[-1] if core and core[-1] in '.,;:' else ''
    return lead, punct, trail


# contexts: (name, before, after, multiplicity)
CONTEXTS = [
    # the formula is never the first or last token of an argument: decorations of the enclosing
    # construct (heading dot, closing bracket of a citation, body text of a user macro, separator
    # of a detached flow) are positioned at the neighbouring token and would be confused with it
    ('top', '', '', 1), ('unk', '\\xxx{Wk ', ' Wl}', 1), ('textbf', '\\textbf{Wa ', ' Wb}', 1), ('footnote', '\\footnote{Wc ', ' Wd}', 1),
    ('item', '\\begin{itemize}\\item Wm ', ' Wn\\end{itemize}', 1), ('heading', '\\section{We ', ' Wf}', 1),
    ('citeopt', '\\cite[Wo ', ' Wp]{k}', 1), ('um1', '\\mOne{Wq ', ' Wr}', 1), ('um2', '\\mTwo{Ws ', ' Wt}', 2),
    ('textdisp', '\\begin{equation}z = y \\text{ Wg ', ' Wh}\\end{equation}', 1), ('subsec', '\\subsection*{Wu ', ' Wv}', 1),
    ('footnote-in-heading', '\\section{Wi\\footnote{Ww ', ' Wx}}', 1),
]
PRE = '\\newcommand{\\mOne}[1]{<#1>}\\newcommand{\\mTwo}[1]{#1 and #1}\n'


class Doc:
    def __init__(self, pre=PRE):
        self.s = pre
        self.forms = []     # (a, b, lang, multiplicity, lead, punct, trail)

    def formula(self, body, bm, delim, lang, mult=1):
        a = len(self.s)
        self.s += ('$' + body + '$') if delim == 0 else ('\\(' + body + '\\)')
        self.forms.append((a, len(self.s), lang, mult) + tuple(bm))


def build(case):
    kind = case[0]
    if kind == 'body':
        _, idx, delim, lang = case
        atoms = [ATOMS[i] for i in idx]
        d = Doc('')
        d.s = 'Wa '
        d.formula(''.join(a for a, _ in atoms), body_model(atoms), delim, lang)
        d.s += ' Wb '
        d.formula('q', (False, '', False), 0, lang)
        d.s += ' Wc\n'
        return d, {'pack': '*', 'lang': lang}, False
    if kind == 'ctx':
        _, ctxs, lang, off = case
        d = Doc()
        d.s += 'Wa'
        for k, ci in enumerate(ctxs):
            name, before, after, mult = CONTEXTS[ci]
            body = MENU[(k + off) % len(MENU)]
            d.s += ' ' + before
            d.formula(body, menu_model(body), (k + off) % 2, lang, mult)
            d.s += after + ' Wz'
        d.s += '\n'
        return d, {'pack': '*', 'lang': lang}, False
    if kind == 'ml':
        _, events, main = case
        d = Doc('\\usepackage{babel}\n')
        cur = [main]
        d.s += 'Wa'
        k = 0
        for ev in events:
            d.s += ' '
            if ev == 'F':
                body = MENU[k % len(MENU)]
                k += 1
                d.formula(body, menu_model(body), k % 2, cur[-1])
            elif ev[0] == 'S':
                d.s += '\\selectlanguage{%s}' % ev[1:]
                cur[-1] = LT[ev[1:]]
            elif ev[0] == 'N':
                # a foreign insertion with a footnote in it (the footnote starts with a hard switch to the language in force)
                lang, n = ev[1:].split(':')
                d.s += '\\foreignlanguage{%s}{Wi \\footnote{Wn ' % lang
                body = MENU[k % len(MENU)]
                k += 1
                d.formula(body, menu_model(body), k % 2, LT[lang])
                d.s += ' Wo} Wj}'
            elif ev[0] in 'IH':
                # foreign insertion holding one or two formulas (H: inside a heading, whose argument is expanded twice)
                lang, n = ev[1:].split(':')
                if ev[0] == 'H':
                    d.s += '\\section{Wh '
                d.s += '\\foreignlanguage{%s}{Wi ' % lang
                for _ in range(int(n)):
                    body = MENU[k % len(MENU)]
                    k += 1
                    d.formula(body, menu_model(body), k % 2, LT[lang])
                    d.s += ' Wj '
                d.s += '}'
                if ev[0] == 'H':
                    d.s += ' Wk}'
            d.s += ' Wz'
        d.s += '\n'
        return d, {'pack': '*', 'lang': main}, True
    raise ValueError(kind)


ML_EVENTS = ['F', 'Sgerman', 'Senglish', 'Srussian', 'Sfrench', 'Igerman:1', 'Irussian:2', 'Ienglish:1', 'Hrussian:1', 'Hgerman:2', 'Nrussian:1']


class C10:
    id = 'C10'
    level = 'model_checking'
    chunk = 100
    rule = ('states = documents (single formula bodies over the atom alphabet; 1-4 formulas in all context combinations; '
            'multi-language event sequences); non-trivial = the document has at least two formula expansions of one collection '
            '(rotation is judged) or a formula with maths space / punctuation / operator-only body')
    assumptions = [
        'formulas without visible content (only maths space) are outside the statement',
        'expansion order equals source order in all generated contexts; an argument used twice expands its formula twice',
        'languages without own settings share the English collection',
    ]

    def bounds(self, tier):
        return {'atoms': [a for a, _ in ATOMS], 'max_atoms': 3, 'contexts': [c[0] for c in CONTEXTS],
                'formulas_per_document': 3 if tier == 'quick' else 4, 'languages': ['en', 'de', 'ru'],
                'ml_events': ML_EVENTS, 'ml_max_events': 4 if tier == 'quick' else 5}

    def cases(self, tier, seed):
        allat = list(range(len(ATOMS)))
        for k in (1, 2, 3):
            for c in itertools.product(allat, repeat=k):
                if not any(ATOMS[i][1] == 'v' for i in c):
                    continue
                for li, lang in enumerate(('en', 'de', 'ru')):
                    if k == 3 and tier == 'quick' and li != sum(c) % 3:
                        continue
                    for delim in (0, 1):
                        yield ['body', list(c), delim, lang]
        nmax = 3 if tier == 'quick' else 4
        for n in range(1, nmax + 1):
            for ctxs in itertools.product(range(len(CONTEXTS)), repeat=n):
                for li, lang in enumerate(('en', 'de', 'ru')):
                    if n == nmax and li != sum(ctxs) % 3:
                        continue
                    yield ['ctx', list(ctxs), lang, sum(ctxs) % len(MENU)]
        emax = 4 if tier == 'quick' else 5
        for n in range(1, emax + 1):
            for evs in itertools.product(ML_EVENTS, repeat=n):
                if sum(e == 'F' or e[0] in 'IHN' for e in evs) < 2:
                    continue
                for main in ('en-GB', 'de-DE'):
                    yield ['ml', list(evs), main]

    def judge(self, case):
        d, opts, ml = build(case)
        src = d.s
        o = impl.run_filter(src, opts, ml=ml, thresh=(2 if ml else None))
        if o.kind != 'ok':
            return {'viol': [{'clause': 'returns', 'sig': 'C10:no-result', 'detail': {'source': src, 'info': o.info}}],
                    'out': o.info, 'nt': True, 'tr': 1}
        parts = [(l, p[0], list(p[1])) for l in o.result for p in o.result[l]] if ml else [('', o.result[0], list(o.result[1]))]
        viol = []
        ctxname = self.tag(case)
        seq = {}        # collection key -> list of members in expansion order
        for (a, b, lang, mult, lead, punct, trail) in d.forms:
            occ = []
            for pl, txt, nums in parts:
                i = 0
                while i < len(txt):
                    if a < nums[i] <= b:
                        j = i
                        while j < len(txt) and a < nums[j] <= b:
                            j += 1
                        occ.append((pl, txt[i:j]))
                        i = j
                    else:
                        i += 1
            key = coll_key(lang)
            members = COLL[key]
            det = {'source': src, 'formula': src[a:b], 'language': lang, 'rendered': occ,
                   'result': [(pl, txt) for pl, txt, _ in parts]}
            # an argument used twice may be rendered as one run (adjacent) - split on the placeholder pattern
            pat = '( ?)(%s)([.,;:]?)( ?)' % '|'.join(re.escape(m) for m in members)
            found = []
            bad = False
            for pl, t in occ:
                pos = 0
                while pos < len(t):
                    m = re.compile(pat).match(t, pos)
                    if not m or m.end() == pos:
                        bad = True
                        break
                    found.append((pl, m))
                    pos = m.end()
            if bad or len(found) != mult:
                viol.append({'clause': 'each formula yields exactly one placeholder of the collection of the language in force, '
                                       'optional blank, optional final punctuation, nothing else, all mapped inside the formula',
                             'sig': 'C10:rendering:' + ctxname, 'detail': det})
                continue
            for pl, m in found:
                if ml and pl and lang and pl != lang:
                    viol.append({'clause': 'placeholder stands in the part of its language', 'sig': 'C10:part:' + ctxname, 'detail': det})
                exp = (' ' if lead else '', punct, ' ' if trail else '')
                if (m.group(1), m.group(3), m.group(4)) != exp:
                    viol.append({'clause': 'blank iff the formula starts/ends with maths space; last character kept iff it is . , ; :',
                                 'sig': 'C10:frame:%s' % ('space' if (m.group(1), m.group(4)) != (exp[0], exp[2]) else 'punct'),
                                 'detail': dict(det, expected=exp)})
                seq.setdefault(key if key != 'de' else 'en+de' if False else key, []).append(m.group(2))
        for key, ms in seq.items():
            members = COLL[key]
            for x, y in zip(ms, ms[1:]):
                if members.index(y) != (members.index(x) + 1) % len(members):
                    viol.append({'clause': 'successive formulas of one language get cyclically successive placeholders',
                                 'sig': 'C10:rotation:' + ctxname, 'detail': {'source': src, 'collection': key, 'sequence': ms,
                                                                             'result': [(pl, txt) for pl, txt, _ in parts]}})
                    break
        nexp = sum(f[3] for f in d.forms)
        nt = nexp >= 2 or any(f[4] or f[5] or f[6] for f in d.forms)
        return {'viol': viol[:3], 'out': [(pl, txt) for pl, txt, _ in parts], 'nt': nt, 'tr': 1, 'cnt': {'evaluations': nexp}}

    def tag(self, case):
        if case[0] == 'body':
            return 'body'
        if case[0] == 'ml':
            return 'multi-language'
        names = [CONTEXTS[i][0] for i in case[1]]
        for special in ('heading', 'footnote-in-heading', 'subsec', 'um2', 'textdisp', 'citeopt', 'footnote', 'item'):
            if special in names:
                return special
        return names[0]

    def explain(self, case):
        d, opts, ml = build(case)
        return 'source %r\noptions %r multi_language=%r\nformulas %r' % (d.s, opts, ml, d.forms)


CHECK = C10()
