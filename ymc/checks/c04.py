"""C04 - generated text maps into the source span of the construct that generated it."""
from .. import catalogue as cat
from .. import catcheck


class C04:
    id = 'C04'
    level = 'model_checking'
    chunk = 150
    rule = ('states = catalogue documents; every character of generated text and every white-space output character is '
            'one obligation; non-trivial = the document contains a generating construct (generated text, detached flow, '
            'environment frame, user macro, glossary, cleveref) and the filter returned a text')
    assumptions = [
        'span of a construct = first character of its leading backslash/$/\\begin through its last argument or matching end, as rendered',
        'white space: an output blank/newline must map to source white space, to a white-space valued sequence (~ \\, \\\\ &) '
        'or into the span of a construct of a kind that generates white space (weak locality)',
        'when the text does not align with the model the positions are not judged here (C03 judges the text)',
    ]
    init_worker = staticmethod(catcheck.init_worker)
    bounds = staticmethod(catcheck.bounds)
    explain = staticmethod(catcheck.explain)

    def cases(self, tier, seed):
        yield from catcheck.cases(tier, seed)
        # every generating construct three times in one document (repeated use of the same macro / entry)
        for name in cat.ALL:
            if cat.META[name]['cls'] in ('gen', 'gls', 'cref', 'user', 'math', 'detached'):
                for sep in (' ', '\n'):
                    for lang in catcheck.langs_for([[name]]):
                        yield [[[name], [name], [name]], sep, lang]

    def judge(self, case):
        r, o, skip = catcheck.run_case(case)
        if skip:
            return {'viol': [], 'out': 'skip', 'nt': False, 'tr': 1, 'cnt': {'skipped:' + skip: 1}}
        if o.kind != 'ok':
            return {'viol': [{'clause': 'returns', 'sig': 'C04:no-result:' + o.kind, 'detail': o.info}],
                    'out': o.info, 'nt': True, 'tr': 1}
        plain, nums = o.result
        nums = list(nums)
        viol = []
        obligations = 0
        al, prob = cat.align(r, plain)
        for s, i, ln in al:
            if s[0] != 'G':
                continue
            nd = r.nodes[s[2]]
            for j in range(ln):
                obligations += 1
                p = nums[i + j]
                if not (nd['a'] < p <= nd['b']):
                    viol.append({'clause': 'generated character maps inside the span of its construct',
                                 'sig': 'C04:genpos:' + nd['name'],
                                 'detail': {'source': r.src, 'plain': plain, 'text': plain[i:i + ln], 'position': p,
                                            'span_1based': [nd['a'] + 1, nd['b']], 'construct': catcheck.construct_path(r, s[2])}})
                    break
            if viol:
                break
        # weak locality of white space
        if not viol:
            src = r.src
            for i, ch in enumerate(plain):
                if ch not in cat.ASCII_WS:
                    continue
                obligations += 1
                q = nums[i] - 1
                if not (0 <= q < len(src)):
                    continue        # C01's business
                if src[q] in ' \n\t\r':
                    continue
                if any(a <= q < b for a, b in r.wsvalued):
                    continue
                n = catcheck.innermost(r, q)
                ok = False
                k = n
                while k is not None:
                    if 'wsgen' in r.nodes[k]['flags']:
                        ok = True
                        break
                    k = r.nodes[k]['parent']
                if not ok:
                    viol.append({'clause': 'white space maps to source white space or into a white-space generating construct',
                                 'sig': 'C04:wspos:' + (r.nodes[n]['name'] if n is not None else 'plain-text'),
                                 'detail': {'source': r.src, 'plain': plain, 'index': i, 'position': nums[i],
                                            'source_there': src[q:q + 10]}})
                    break
        names = list(cat.names_in(case[0]))
        nt = any(cat.META[n]['cls'] in ('gen', 'gls', 'cref', 'user', 'math', 'detached') or cat.META[n].get('par') for n in names)
        cnt = {'evaluations': obligations}
        if prob:
            cnt['unaligned (text differs from model: judged by C03)'] = 1
        return {'viol': viol, 'out': [plain, nums], 'nt': nt, 'tr': 1, 'cnt': cnt}


CHECK = C04()
