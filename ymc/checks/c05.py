"""C05 - text flow is preserved: no paragraph break invented or lost, no words glued.

Documents  pre Waaq gap Wabq [gap Wacq] post  where a gap is a sequence over an
alphabet of white space, vanishing constructs and paragraph formers.  The
reference model computes from the source, by TeX's rules, whether the two
words are in different paragraphs (PAR), separated (SEP) or adjacent (NONE)."""
import itertools
import re

from .. import impl

# element: (source, kind)   kind: w white space, v vanishing (ends with } or similar), c control word (swallows
# following white space), % comment (swallows its line end and the indentation after it), p paragraph former,
# pc paragraph former that is a control word
ELEMS = {
    'sp': (' ', 'w'), 'nl': ('\n', 'w'), 'bl': ('\n\n', 'w'), 'sp2': ('  ', 'w'), 'nli': ('\n  ', 'w'),
    'blb': ('\n \n', 'w'), 'tab': ('\t', 'w'), 'blt': ('\n\t\n', 'w'),
    'label': ('\\label{k}', 'v'), 'index': ('\\index{k}', 'v'), 'xxx': ('\\xxx', 'c'), 'yyy': ('\\yyy{}', 'v'),
    'grp': ('{}', 'v'), 'cmt': ('% c\n', '%'), 'ltskip': ('\\LTskip{q}', 'v'),
    'skipreg': ('%%% LT-SKIP-BEGIN\nq\n%%% LT-SKIP-END\n', '%'), 'tikz': ('\\begin{tikzpicture}q\\end{tikzpicture}', 'v'),
    'vph': ('\\vphantom{q}', 'v'), 'fn': ('\\footnote{Wfnq}', 'v'),
    'par': ('\\par', 'pc'), 'minib': ('\\begin{minipage}{w}', 'p'), 'minie': ('\\end{minipage}', 'p'),
    'proofb': ('\\begin{proof}', 'p'),
    # a displayed equation whose last row is closed by a row separator; its placeholders and operator words are taken
    # out of the text between the words before judging
    'eqn': ('\\begin{align}\na &= b \\\\\nc &= d \\\\\n\\end{align}', 'v'), 'eqn1': ('\\begin{equation}a = b.\\end{equation}', 'v'),
}
# a vanishing construct on a line of its own (indented): one alphabet symbol, so that runs of such lines are within the bound
COMPOSITES = {'l-label': ['nli', 'label'], 'l-index': ['nli', 'index'], 'l-xxx': ['nli', 'xxx'], 'l-yyy': ['nl', 'yyy'], 'l-ltskip': ['nli', 'ltskip'],
              'l-cmt': ['nli', 'cmt']}
NAMES = list(ELEMS) + list(COMPOSITES)


def flat(gap):
    out = []
    for n in gap:
        out += COMPOSITES.get(n, [n])
    return out
PRE = ['', '\\label{k}\n', '% c\n', '\n', '\\xxx ', '{}']
POST = ['\n', '', '\n\\label{k}\n', ' % c', '\n\n', '\\xxx']
WS = ' \t\n'
# words inside the kept argument of a macro / a group, with white space next to the delimiters
WRAPS = [('\\textcolor{red}{', '}'), ('\\LTadd{', '}'), ('\\framebox[w][c]{', '}'), ('\\mq{', '}'), ('\\xxx{', '}'), ('{', '}'),
         ('\\begin{uenv}', '\\end{uenv}'), ('\\footnote{', '}'),
         # (the unstarred otherlanguage environment skips space behind its end, as babel does: not generated)
         ('\\begin{otherlanguage*}{german}', '\\end{otherlanguage*}'),
         ('\\foreignlanguage{german}{', '}'), ('\\mt{', '}'),
         # \xspace as the last token of an argument that the macro body puts directly in front of more text (#1#2):
         # the next word follows in the source behind '}{', xspace has to see it
         ('\\mb{', '\\xspace}{', '}')]
# white space next to the delimiters; the last two also hold vanishing markup (a markup-only line; a control word in front of the closing delimiter)
WRAP_WS = ['', ' ', '\n', '\n  ', ' \n', '\\index{k}\n', '\\xxx']


def relation(gap):
    """gap: list of element names -> 'PAR' | 'SEP' | 'NONE' (TeXbook rules)"""
    gap = flat(gap)
    src = ''.join(ELEMS[n][0] for n in gap)
    if any(ELEMS[n][1] in ('p', 'pc') for n in gap):
        return 'PAR'
    if re.search(r'\n[ \t]*\n', src):
        return 'PAR'
    # does white space count?  walk elements, merging white-space runs
    swallow = False      # the next white-space run does not count
    i = 0
    while i < len(gap):
        kind = ELEMS[gap[i]][1]
        if kind == 'w':
            j = i
            while j < len(gap) and ELEMS[gap[j]][1] == 'w':
                j += 1
            if not swallow:
                return 'SEP'
            swallow = False
            i = j
            continue
        if kind in ('c', 'pc'):
            swallow = True          # blanks directly after a control word do not count
        elif kind == '%':
            swallow = True          # the comment took its line end; indentation after it does not count
        else:
            swallow = False
        i += 1
    return 'NONE'


def build(case):
    if case[0] == 'wrap':
        _, wi, a, b, c, d = case
        o, cl = WRAPS[wi][:2]
        if len(WRAPS[wi]) > 2:
            return '\\newcommand{\\mb}[2]{#1#2}\n' + 'Waaq' + WRAP_WS[a] + o + WRAP_WS[b] + 'Wabq' + WRAP_WS[c] + cl + WRAP_WS[d] + 'Wacq' + WRAPS[wi][2] + '\n'
        pre = '\\newcommand{\\mq}[1]{#1}\n' if 'mq' in o else '\\newcommand{\\mt}[1]{#1#1}\n' if 'mt' in o else '\\usepackage{babel}\n' if 'language' in o else ''
        return pre + 'Waaq' + WRAP_WS[a] + o + WRAP_WS[b] + 'Wabq' + WRAP_WS[c] + cl + WRAP_WS[d] + 'Wacq\n'
    pre, gaps, post = case
    words = ['Waaq', 'Wabq', 'Wacq']
    s = PRE[pre] + words[0]
    for k, g in enumerate(gaps):
        s += ''.join(ELEMS[n][0] for n in flat(g)) + words[k + 1]
    s += POST[post]
    return s


class C05:
    id = 'C05'
    level = 'model_checking'
    chunk = 250
    rule = ('states = documents pre W gap W [gap W] post; one obligation per gap; non-trivial = the gap contains at least '
            'one vanishing construct, comment or paragraph former (not white space only)')
    assumptions = [
        'the gap alphabet stands for all vanishing constructs of its kind (declared macro with hidden argument, unknown macro, '
        'empty group, comment, skipped region, removed environment, detached flow)',
        'NONE gaps (no white space that counts in TeX) carry no obligation except that no paragraph break is invented',
    ]

    def bounds(self, tier):
        return {'gap_alphabet': dict({k: v[0] for k, v in ELEMS.items()}, **{k: ''.join(ELEMS[x][0] for x in v) for k, v in COMPOSITES.items()}), 'max_gap_len': 3 if tier == 'quick' else 4,
                'words_inside_kept_arguments': '%d wrappers x %d^4 white-space layouts' % (len(WRAPS), len(WRAP_WS)), 'two_gaps': 'gap1 <= 2, gap2 <= 1' if tier == 'quick' else 'both <= 2', 'pre': PRE, 'post': POST}

    def cases(self, tier, seed):
        # a control word glued to the following word would be a different control word
        for c in self.all_cases(tier):
            if not any(g and ELEMS[flat(g)[-1]][1] in ('c', 'pc') for g in c[1]):
                yield c
        yield from self.wrap_cases(tier)

    def wrap_cases(self, tier='thorough'):
        n = len(WRAP_WS)
        outer = 5 if tier == 'quick' else n       # outside the delimiters: plain white space only in the quick tier
        for wi in range(len(WRAPS)):
            for a in range(outer):
                for b in range(n):
                    for c in range(n):
                        for d in range(outer):
                            # a control word glued to a following word or letter would be a different control word
                            if (WRAP_WS[a].endswith('xxx') and WRAPS[wi][0][0].isalpha()) or WRAP_WS[b].endswith('xxx') or WRAP_WS[d].endswith('xxx'):
                                continue
                            if WRAP_WS[c].endswith('xxx') and WRAPS[wi][1][0].isalpha():
                                continue
                            yield ['wrap', wi, a, b, c, d]

    def all_cases(self, tier):
        L = 3 if tier == 'quick' else 4
        for k in range(0, L + 1):
            for g in itertools.product(NAMES, repeat=k):
                yield [0, [list(g)], 0]
        Lp = 2 if tier == 'quick' else 3
        for k in range(0, Lp + 1):
            for g in itertools.product(NAMES, repeat=k):
                for pre in range(len(PRE)):
                    for post in range(len(POST)):
                        if pre or post:
                            yield [pre, [list(g)], post]
        L2 = 1 if tier == 'quick' else 2
        for k1 in range(1, 3):
            for g1 in itertools.product(NAMES, repeat=k1):
                for k2 in range(1, L2 + 1):
                    for g2 in itertools.product(NAMES, repeat=k2):
                        yield [0, [list(g1), list(g2)], 0]

    def judge_wrap(self, case):
        _, wi, a, b, c, d = case
        src = build(case)
        o = impl.run_filter(src, {'pack': '*', 'lang': 'en'})
        if o.kind != 'ok':
            return {'viol': [{'clause': 'returns', 'sig': 'C05:no-result:' + o.kind, 'detail': {'source': src, 'info': o.info}}], 'out': o.info, 'nt': True, 'tr': 1}
        plain = o.result[0]
        viol = []
        foot = 'footnote' in WRAPS[wi][0]
        twice = 'mt{' in WRAPS[wi][0]

        def counts(x):
            # does this piece hold white space that counts?  (blanks behind a control word do not)
            return bool(re.search(r'[ \t\n]', x.replace('\\xxx ', '').replace('\\xxx\n', '')))
        wsa, wsb, wsc, wsd = (WRAP_WS[k] for k in (a, b, c, d))
        xs = 'xspace' in WRAPS[wi][1]      # \xspace supplies the blank when a letter follows
        pairs = [('Waaq', 'Wacq', counts(wsa) or counts(wsd))] if foot else \
            [('Waaq', 'Wabq', counts(wsa) or counts(wsb)), ('Wabq', 'Wacq', xs or counts(wsc) or counts(wsd))]
        if twice:
            pairs.insert(1, ('Wabq', 'Wabq', counts(wsc) or counts(wsb)))
        start = 0
        for w1, w2, ws in pairs:
            i = plain.find(w1, start)
            j = plain.find(w2, i + 4) if i >= 0 else -1
            start = j if w1 == w2 and j >= 0 else 0
            if w1 != w2 and twice and w1 == 'Wabq':
                i = plain.rfind(w1)
                j = plain.find(w2, i + 4)
            if i < 0 or j < i:
                viol.append({'clause': 'both words survive in order', 'sig': 'C05:wrap:word-lost', 'detail': {'source': src, 'plain': plain}})
                break
            between = plain[i + 4:j]
            tag = WRAPS[wi][0][:10]
            if between.strip(WS):
                viol.append({'clause': 'only white space between the words', 'sig': 'C05:wrap:text-between:' + tag, 'detail': {'source': src, 'plain': plain}})
            elif re.search(r'\n[ \t]*\n', between):
                viol.append({'clause': 'no paragraph break invented (delimiter of a kept argument alone on its line)',
                             'sig': 'C05:wrap:par-invented:' + tag, 'detail': {'source': src, 'plain': plain, 'between': between}})
            elif ws and between == '':
                viol.append({'clause': 'words separated by white space that counts stay separated', 'sig': 'C05:wrap:glued:' + tag + (':ctrl' if 'xxx' in wsc else ''),
                             'detail': {'source': src, 'plain': plain}})
        return {'viol': viol, 'out': plain, 'nt': True, 'tr': 1, 'cnt': {'evaluations': len(pairs)}}

    def judge(self, case):
        if case[0] == 'wrap':
            return self.judge_wrap(case)
        src = build(case)
        o = impl.run_filter(src, {'pack': '*', 'lang': 'en'})
        if o.kind != 'ok':
            return {'viol': [{'clause': 'returns', 'sig': 'C05:no-result:' + o.kind, 'detail': {'source': src, 'info': o.info}}],
                    'out': o.info, 'nt': True, 'tr': 1}
        plain = o.result[0]
        viol = []
        words = ['Waaq', 'Wabq', 'Wacq']
        nt = False
        rels = []
        for k, g in enumerate(case[1]):
            rel = relation(g)
            rels.append(rel)
            a, b = plain.find(words[k]), plain.find(words[k + 1])
            if a < 0 or b < 0 or b < a:
                viol.append({'clause': 'both words survive in order', 'sig': 'C05:word-lost:' + self.tag(g),
                             'detail': {'source': src, 'plain': plain}})
                break
            raw = plain[a + 4:b]
            between = re.sub(r'[U-Z]-[U-Z]-[U-Z]\.?|equal', '', raw.replace('Proof.', ''))
            obs_par = bool(re.search(r'\n[ \t]*\n', raw))       # a blank line in what the filter wrote
            if any(ELEMS[n][1] != 'w' for n in flat(g)):
                nt = True
            if between.strip(WS):
                viol.append({'clause': 'only white space between the words', 'sig': 'C05:text-between:' + self.tag(g),
                             'detail': {'source': src, 'plain': plain, 'between': between}})
            elif rel == 'PAR' and not obs_par:
                viol.append({'clause': 'blank line / \\par / paragraph-forming environment gives a blank line in the output',
                             'sig': 'C05:par-lost:' + self.tag(g), 'detail': {'source': src, 'plain': plain, 'between': between}})
            elif rel != 'PAR' and obs_par:
                viol.append({'clause': 'no paragraph break invented (a line that became blank because markup vanished)',
                             'sig': 'C05:par-invented:' + self.tag(g), 'detail': {'source': src, 'plain': plain, 'between': between}})
            elif rel == 'SEP' and between == '':
                viol.append({'clause': 'words separated by white space that counts stay separated',
                             'sig': 'C05:glued:' + self.tag(g), 'detail': {'source': src, 'plain': plain}})
        return {'viol': viol, 'out': [plain, rels], 'nt': nt, 'tr': 1, 'cnt': {'evaluations': len(case[1])}}

    def tag(self, g):
        kinds = sorted(set(n for n in flat(g) if ELEMS[n][1] != 'w'))
        return '+'.join(kinds[:2]) or 'ws'

    def explain(self, case):
        if case[0] == 'wrap':
            return 'source %r' % build(case)
        return 'source %r\nrelations %r' % (build(case), [relation(g) for g in case[1]])


CHECK = C05()
