"""C16 - HTML report: faithful source, each match once, content cannot break the markup.

--plain-input mode (identity position map, so any source text): a menu of
source files x ALL sets of up to 2 (3) matches over all in-range
(offset, length) x context sizes; hostile characters in source, messages,
suggestions and context.  The report is parsed with html.parser and compared
with the source."""
import itertools
import os
import re

from .. import core, impl, reports, shell  # noqa: F401

HOST = '<b>&amp;"q" </td>'
SOURCES = [
    'ab\ncd\n',
    'a<b\n\n&"d\nxy z\n',
    'ab cd\nef\ngh\nij\nkl\n',
    '\\xx a\nb\n',
    'a  b \n c\n',
    'a\tb\nc',
    '<i>&lt;\n>"\n',
    'x' * 300 + '\nyz\n',
    'a \\& b\n\\dev c\n',
    'ab\ncd  ',                                     # no final line break, trailing blanks
    'ab\n\n\n',                                     # trailing empty lines
    'a\x0cb\nc\u2028d\ne\x85f\x0bg\nh\x1ci\n',           # characters that str.splitlines() - but not the shell - treats as line breaks
]
LENGTHS = [0, 1, 2, 4, 7]
CONTEXTS = [0, 1, 2, -1]
TAGS_OK = {'html', 'head', 'meta', 'body', 'a', 'h3', 'table', 'tr', 'td', 'span', 'br', 'h2', 'hr', 'ul', 'li'}


def positions(tex):
    n = len(tex)
    if n > 100:
        offs = [0, 1, 150, 298, 299, 300, 301, 302, 303]
    else:
        offs = range(n)
    return [(o, l) for o in offs for l in LENGTHS if o + max(l, 1) <= n]


def mk(i, text, off, ln):
    m = shell.lt_match(text, off, ln, message='M%d %s' % (i, HOST), rule='R' + HOST, repl=('r' + HOST, 's<'))
    m['context'] = {'text': 'c' + HOST + text[off:off + max(ln, 1)].replace('\n', ' '), 'offset': 0, 'length': 1}
    return m


def expected_span(tex, off, ln):
    beg = off
    end = off + max(1, ln)
    if end == beg + 1 and tex[beg] == '\\':
        m = re.match(r'\\[A-Za-z]+', tex[beg:])
        if m:
            end = beg + len(m.group(0))
    return beg, end


def judge_html(out, tex, ms, ctx):
    """-> list of (kind, detail)"""
    pr = []
    p = reports.parse_html(out)
    if not set(p.tags) <= TAGS_OK:
        pr.append(('markup', 'unexpected elements %r' % sorted(set(p.tags) - TAGS_OK)))
    lines = tex.split('\n')
    if lines[-1] == '':
        lines = lines[:-1]
    main = [r for t, r in p.rows if t == 0]
    nums = []
    for r in main:
        if len(r) != 2:
            pr.append(('rows', 'row with %d cells' % len(r)))
            continue
        num = reports.html_text(r[0]).replace('\xa0', ' ').strip()
        txt = reports.html_text(r[1])
        if num == '':
            if txt.strip('\n') != '':
                pr.append(('rows', 'text in separator row: %r' % txt))
            continue
        if not num.isdigit() or not 1 <= int(num) <= len(lines):
            pr.append(('rows', 'bad line number %r' % num))
            continue
        k = int(num)
        nums.append(k)
        if txt.rstrip('\n') != lines[k - 1].replace('\t', ' ' * 8):
            pr.append(('line-text', 'row %d shows %r, source line is %r' % (k, txt, lines[k - 1])))
    if nums != sorted(set(nums)):
        pr.append(('rows', 'line numbers not increasing / repeated: %r' % nums))
    big = 10 ** 8
    c = ctx if ctx >= 0 else big
    exp_lines = set()
    for o, l in ms:
        b, e = expected_span(tex, o, l)
        bl = tex.count('\n', 0, b)
        el = tex.count('\n', 0, e) + 1
        for k in range(max(bl - c, 0), min(el + c, len(lines))):
            exp_lines.add(k + 1)
    if ctx < 0 and ms:
        exp_lines = set(range(1, len(lines) + 1))
    if not ms:
        exp_lines = set(range(1, min(c, len(lines)) + 1))
    if set(nums) != exp_lines:
        pr.append(('coverage', 'rows for lines %r, expected %r' % (nums, sorted(exp_lines))))
    for i, (o, l) in enumerate(ms):
        mine = [h for h in p.highlights if h['title'] and reports.html_text(h['title']).startswith('M%d ' % i)]
        if not mine:
            pr.append(('match-missing', 'match %d (%d,%d) is not highlighted anywhere' % (i, o, l)))
            continue
        tabs = {h['table'] for h in mine}
        if len(tabs) != 1:
            pr.append(('match-twice', 'match %d appears in place and in the overlap list' % i))
        b, e = expected_span(tex, o, l)
        got = '\n'.join(reports.html_text(h['text']) for h in mine)
        exp = tex[b:e]
        if exp == '\n':
            exp = ''
        elif exp.endswith('\n'):
            exp = exp[:-1]      # the line break ending the last highlighted line is outside the span
        if got != exp.replace('\t', ' ' * 8):
            pr.append(('highlight-text', 'match %d (%d,%d) highlights %r, source span is %r' % (i, o, l, got, exp)))
        title = reports.html_text(mine[0]['title'])
        if ('M%d ' % i) + HOST not in title or 'r' + HOST not in title or 's<' not in title or title.count(HOST) < 4:
            pr.append(('title', 'hostile message / suggestion / context not verbatim in the title: %r' % title[:200]))
        if any(h.get('style') is None for h in mine):
            pr.append(('markup', 'span without style (attribute broken?)'))
    if sum(1 for h in p.highlights if h['title']) < len(ms):
        pr.append(('match-missing', 'fewer highlights than matches'))
    return pr


class C16:
    id = 'C16'
    level = 'model_checking'
    chunk = 40
    rule = ('states = (source file, set of matches, context size); non-trivial = at least one match and (two matches overlap or touch, '
            'or a match is multi-line / zero-length / at the first or last character, or the source has HTML-special characters)')
    assumptions = [
        'html.parser is the trusted reader of the markup',
        'a tab is shown as 8 blanks, a blank as &ensp; (presentation, not content)',
        'line breaks inside answer strings are a malformed answer (C15), not generated here',
        '--plain-input route: run through the real top-level code of shell.py, proofreader.subprocess.run replaced',
    ]

    def init_worker(self):
        os.chdir(core.scratch_dir())
        self.sessions = {}

    def bounds(self, tier):
        return {'sources': [s if len(s) < 40 else s[:10] + '...(%d chars)' % len(s) for s in SOURCES], 'lengths': LENGTHS, 'contexts': CONTEXTS,
                'match_sets': 'all sets of <= 2 matches; all sets of 3 on sources up to %d characters' % (7 if tier == 'quick' else 16),
                'hostile_strings': HOST}

    def cases(self, tier, seed):
        yield from self.single_cases(tier)
        yield from self.multi_cases(tier)

    def single_cases(self, tier):
        for si, tex in enumerate(SOURCES):
            pos = positions(tex)
            for ci in range(len(CONTEXTS)):
                yield [si, [], ci]
                for a in pos:
                    yield [si, [list(a)], ci]
                for a, b in itertools.combinations_with_replacement(pos, 2):
                    yield [si, [list(a), list(b)], ci]
            if False:
                pass
            if len(tex) <= (7 if tier == 'quick' else 16):
                for a, b, c in itertools.combinations(pos, 3):
                    for ci in ((1,) if tier == 'quick' else range(len(CONTEXTS))):
                        yield [si, [list(a), list(b), list(c)], ci]

    def multi_cases(self, tier):
        # a short file in front of a longer one (and the other way round), one match somewhere in the second file
        for a, b in ((0, 2), (2, 0), (5, 2), (3, 1)):
            pos = positions(SOURCES[b])
            for ci in range(len(CONTEXTS)):
                yield ['multi', a, b, [], ci]
                for p in pos[::1 if tier != 'quick' else 2]:
                    yield ['multi', a, b, [list(p)], ci]

    def judge_multi(self, case):
        """two files in one run: the report of each file must be what it is when the file is processed alone"""
        _, a, b, ms, ci = case
        ms = [tuple(m) for m in ms]
        key = ('multi', a, b, ci)
        if not hasattr(self, 'sessions'):
            self.sessions = {}
        d = os.path.join(core.scratch_dir(), 'hm%d_%d' % (a, b))
        if key not in self.sessions:
            os.makedirs(d, exist_ok=True)
            for k, name in ((a, 'fa.tex'), (b, 'fb.tex')):
                with open(os.path.join(d, name), 'w', newline='') as f:
                    f.write(SOURCES[k])
            self.sessions[key] = shell.Session(['--plain-input', '--output', 'html', '--context', str(CONTEXTS[ci]), 'fa.tex', 'fb.tex'],
                                               lambda t, c: shell.lt_answer([]), cwd=d)
        sess = self.sessions[key]
        texs = [SOURCES[k] if SOURCES[k].endswith('\n') else SOURCES[k] + '\n' for k in (a, b)]
        sess.answer = lambda t, c: shell.lt_answer([mk(i, t, o, l) for i, (o, l) in enumerate(ms)] if t == texs[1] and t != texs[0] else [])
        out, err, code, exc = sess.report()
        if code is not None or exc:
            return {'viol': [{'clause': 'report is written', 'sig': 'C16:no-report:%s' % (exc or code),
                              'detail': {'sources': texs, 'matches': ms, 'context': CONTEXTS[ci], 'stderr': err[-300:], 'exc': exc}}], 'out': 'none', 'nt': True, 'tr': 1}
        pieces = out.split('<a id="')
        viol = []
        for name, tex, mm in (('fa.tex', texs[0], []), ('fb.tex', texs[1], ms)):
            part = [x for x in pieces if x.startswith(name + '"></a>')]
            if len(part) != 1:
                viol.append({'clause': 'one report part per file', 'sig': 'C16:multi:parts', 'detail': {'report': out[:800]}})
                continue
            pr = judge_html('<a id="' + part[0], tex, mm, CONTEXTS[ci])
            for k, dd in pr[:1]:
                viol.append({'clause': 'the report of a file does not depend on the files processed before it',
                             'sig': 'C16:multi:%s' % k, 'detail': {'file': name, 'sources': [t[:60] for t in texs], 'matches': mm, 'context': CONTEXTS[ci], 'problem': dd}})
        return {'viol': viol, 'out': core.h64(out), 'nt': True, 'tr': 1}

    def session(self, si, ci):
        key = (si, ci)
        if not hasattr(self, 'sessions'):
            self.sessions = {}
        if key not in self.sessions:
            d = os.path.join(core.scratch_dir(), 'h%d' % si)
            os.makedirs(d, exist_ok=True)
            with open(os.path.join(d, 'f.tex'), 'w', newline='') as f:
                f.write(SOURCES[si])
            self.sessions[key] = shell.Session(['--plain-input', '--output', 'html', '--context', str(CONTEXTS[ci]), 'f.tex'],
                                               lambda t, c: shell.lt_answer([]), cwd=d)
        return self.sessions[key]

    def judge(self, case):
        if case[0] == 'multi':
            return self.judge_multi(case)
        si, ms, ci = case
        tex = SOURCES[si]
        if not tex.endswith('\n'):
            tex += '\n'         # the shell adds the missing final line break
        ms = [tuple(m) for m in ms]
        sess = self.session(si, ci)
        sess.answer = lambda t, c: shell.lt_answer([mk(i, t, o, l) for i, (o, l) in enumerate(ms)])
        out, err, code, exc = sess.report()
        if code is not None or exc:
            return {'viol': [{'clause': 'report is written', 'sig': 'C16:no-report:%s' % (exc or code),
                              'detail': {'source': tex, 'matches': ms, 'context': CONTEXTS[ci], 'stderr': err[-300:], 'exc': exc}}],
                    'out': 'none', 'nt': True, 'tr': 1}
        # report order is by position; ids stay attached to their (offset, length)
        pr = judge_html(out, tex, ms, CONTEXTS[ci])
        viol = [{'clause': 'HTML report reproduces the source, highlights each match once with its source span, keeps content out of the markup',
                 'sig': 'C16:%s' % k, 'detail': {'source': tex[:80], 'matches': ms, 'context': CONTEXTS[ci], 'problem': d, 'report': out[:1200]}}
                for k, d in pr[:2]]
        lines = tex.count('\n')
        nt = bool(ms) and (len(ms) > 1 or any(l == 0 or o == 0 or o + max(l, 1) == len(tex) or '\n' in tex[o:o + l] for o, l in ms) or
                           any(ch in tex for ch in '<>&"'))
        return {'viol': viol, 'out': core.h64(out), 'nt': nt, 'tr': 1}

    def conformance_picks(self, seed):
        k = 1499 + seed % 29
        return [c for i, c in enumerate(self.single_cases('quick')) if i % k == seed % k][:30] + \
            [['enc', 'latin-1', 1], ['enc', 'cp1252', 3], ['enc', 'utf-8', 0]]

    def finish(self, ctx):
        self.init_worker()
        n = 0
        viol = []
        for case in self.conformance_picks(ctx['seed']):
            k, vs = self.conformance_one(case)
            n += k
            viol += [(case, v) for v in vs]
        return {'conformance_replays': n, 'viol': viol}

    def conformance_enc(self, case):
        """a source file in another encoding (--encoding): the report is UTF-8 as its header says, and still shows the source"""
        _, enc, ci = case
        tex = 'Gr\u00f6\u00dfe x\nzwei \u00e4 <b>\ndrei\n'
        ms = [(0, 5), (tex.index('zwei'), 6)]
        ans = shell.lt_answer([mk(i, tex, o, l) for i, (o, l) in enumerate(ms)])
        d = os.path.join(core.scratch_dir(), 'cli16e')
        rc, cout, cerr, args = shell.run_cli(['--plain-input', '--encoding', enc, '--output', 'html', '--context', str(CONTEXTS[ci]), 'e.tex'],
                                             {'e.tex': tex.encode(enc)}, {}, ans, d)
        det = {'encoding': enc, 'source': tex, 'rc': rc, 'stderr': cerr[-300:]}
        try:
            out = cout.decode('utf-8')
        except UnicodeDecodeError as e:
            return 1, [{'clause': 'the HTML report is UTF-8, as its header declares', 'sig': 'C16:encoding:not-utf8',
                        'detail': dict(det, problem=str(e)[:200], report=cout[:300].decode('latin-1'))}]
        if rc != 0 or 'charset="UTF-8"' not in out:
            return 1, [{'clause': 'report is written', 'sig': 'C16:encoding:no-report', 'detail': dict(det, report=out[:300])}]
        pr = judge_html(out, tex, ms, CONTEXTS[ci])
        return 1, [{'clause': 'HTML report reproduces the source also for a source file in another encoding', 'sig': 'C16:encoding:%s' % k,
                    'detail': dict(det, problem=dd, report=out[:800])} for k, dd in pr[:1]]

    def conformance_one(self, case):
        if case[0] == 'enc':
            return self.conformance_enc(case)
        si, ms, ci = case
        tex = SOURCES[si] if SOURCES[si].endswith('\n') else SOURCES[si] + '\n'
        sess = self.session(si, ci)
        ans = shell.lt_answer([mk(i, tex, o, l) for i, (o, l) in enumerate(ms)])
        sess.answer = lambda t, c: ans
        out, err, code, exc = sess.report()
        d = os.path.join(core.scratch_dir(), 'cli16')
        rc, cout, cerr, args = shell.run_cli(['--plain-input', '--output', 'html', '--context', str(CONTEXTS[ci]), 'f.tex'],
                                             {'f.tex': SOURCES[si]}, {}, ans, d)
        if rc != 0 or cout.decode('utf-8') != out:
            return 1, [{'clause': 'in-process report is byte-identical to the CLI (conformance)', 'sig': 'C16:conformance',
                        'detail': {'rc': rc, 'cli': cout.decode('utf-8', 'replace')[:600], 'in_process': (out or '')[:600], 'stderr': cerr[-300:]}}]
        return 1, []

    def explain(self, case):
        if case[0] == 'multi':
            return 'files %r then %r\nmatches in the second file (offset, length) %r\ncontext %r' % (SOURCES[case[1]], SOURCES[case[2]], case[3], CONTEXTS[case[4]])
        return 'source %r\nmatches (offset, length) %r\ncontext %r' % (SOURCES[case[0]], case[1], CONTEXTS[case[2]])


CHECK = C16()
