"""Writes /verif/MANIFEST.json from the checks that exist (python -m ymc.manifest)."""
import importlib
import json
import os

from . import registry
from .core import VERIF

PY = '/venv/bin/python'

BASELINE_OFF = ('cd /repo && /venv/bin/python -m pytest -ra -q -p no:cacheprovider --timeout=900 '
                '--continue-on-collection-errors')

TECH = 'bounded exhaustive enumeration (explicit-state, stateless) of the real implementation against a Python reference model'

TEXT = {
    'C01': ('model_checking', 'Every string up to length 3 over a vocabulary of every token kind and every registered macro/environment name, '
            'every catalogue document up to the node bound, every prefix/suffix/deletion of rich documents, under six option '
            'configurations and in multi-language mode, is filtered; length and range invariant judged on every part. '
            'A universal over inputs needs enumeration of the interaction space, not examples.',
            'alphabet genericity (word letters are never inspected); inputs above the bound and other Unicode are not covered',
            TECH + '; invariant: len(plain)==len(charmap), 1<=p<=len(src)'),
    'C02': ('model_checking', 'All catalogue documents up to the node bound x layouts; every literal word is located in the output and '
            'must carry exactly the offsets where it stands in the source; substitutions map to the first character of the sequence.',
            'catalogue rendering is the model of "copied text"; constructs outside the catalogue are not covered', TECH + '; oracle: exact offsets of located unique words'),
    'C03': ('model_checking', 'Same enumeration; oracle is the predicted word sequence per text flow with multiplicity, absence of hidden words and of markup characters.',
            'documented meaning of each catalogue entry (README, list-of-macros.md) is the reference; order of nested detached flows not judged', TECH + '; oracle: word sequence / hidden words / markup'),
    'C04': ('model_checking', 'Same enumeration with repeated generators; every character of generated text must map into the source span of the responsible construct.',
            'span of a construct = from its first character through its last argument / matching end, as rendered by the catalogue', TECH + '; oracle: span containment of generated characters'),
    'C05': ('model_checking', 'All gaps (sequences of white space, vanishing constructs, paragraph formers) up to the bound between two words; '
            'oracle is the PAR/SEP/NONE relation computed from the source by TeX rules.',
            'gap alphabet stands for all vanishing constructs of its kind', TECH + '; oracle: paragraph/separation relation'),
    'C06': ('model_checking', 'All strings up to length 4 (quick) / 5 (thorough) over the special-sequence alphabet are filtered and compared, text and '
            'position map, with a longest-match transducer written from the documented table. Exhaustive below the bound; the scanner decides per offset from the suffix, so the bound covers all pairwise interactions of sequences.',
            'letters a, b and "." stand for all inactive characters; the statement\'s "random longer strings" are not done (sampling is outside this technique)',
            TECH + ' (15-line table transducer)'),
    'C07': ('fault_enumeration', 'Deviation-bounded fault enumeration: all vocabulary strings (0 deviations), every prefix, suffix, single-token deletion '
            'and duplication of catalogue and rich documents (1), pairs (2, thorough); oracle: returns a value of the documented shape, no exception, exit or 10 s watchdog expiry.',
            'self-referential definitions and redefinition of built-ins are excluded syntactically as in the statement', 'exhaustive single/double fault injection on real inputs; totality oracle with watchdog'),
    'C08': ('fault_enumeration', 'Every well-formed catalogue document must be silent (no mark, no diagnostic); every fault form of the statement injected in every slot with tail lengths 0..15 must give a complete mark located at the diagnostic position with the surrounding words preserved.',
            'fault forms are the eleven named in the statement', 'exhaustive fault placement x tail length; oracle: mark iff diagnostic, located, text preserved'),
    'C09': ('model_checking', 'Definition menu x definers x use shapes x three supply routes x option variants (Latin-1, --nosp with the README preamble, text in front of the definitions, --extr); oracle is a substitution interpreter over the AST plus route equivalence up to a constant shift.',
            'non-recursive definitions with undelimited parameters only', TECH + '; substitution interpreter + differential route oracle'),
    'C10': ('model_checking', 'All formula bodies up to 3 atoms, 1-4 formulas per document in every context, three languages; oracle is a rotation-counter model of the placeholder collections.',
            'atom menu stands for maths material of its kind', TECH + '; rotation model'),
    'C11': ('model_checking', 'Equation trees rows x sections x parts over a part menu, all frames, languages, simple mode (also with --nosp); positions of words, generated characters and generated white space; oracle is the README rewriting system written over the tree.',
            'number of blanks between items is not fixed by the documented scheme and is normalised', TECH + '; README rewriting system as model'),
    'C12': ('model_checking', 'All trees of language constructs (insertions, environments, \\selectlanguage at top level / in insertions / in footnotes / in headings, footnotes, font arguments, headings) up to the bound x thresholds x insertion sizes x main languages x trailing-macro and shorthand-probe variants; oracle is a language-stack model: one part per word, right label, text expanded with the settings of its label, placeholder rule for flat short insertions, no split at a same-language insertion, conservation against the single-language run.',
            'joining across nested / empty insertions is outside the model (statement fixes labels only there)', TECH + '; language stack model'),
    'C13': ('model_checking', 'replace_phrases on all texts up to length 7 (quick) / 8 (thorough) over {a,b,blank,newline,.,1(,tab)} with a non-monotonic position list under 14 rule lists, compared exactly with a matcher written without re; plus end-to-end documents through tex2txt in single- and multi-language mode.',
            'the position list values are never inspected by the function, one injective list stands for all', TECH + ' (matcher without re)'),
    'C14': ('model_checking', 'Catalogue documents x every word flagged x output modes plain/json/xml/xml-b/html/server driven in process through the real top-level shell code (XML excerpts included; a second request to the same server object must be submitted as to a fresh server), bound to the CLI and a real server process by byte-identical conformance replays.',
            'fake proofreader mimics LanguageTool answers; real LanguageTool is not run', TECH + '; location equality across report formats; CLI conformance replay'),
    'C15': ('fault_enumeration', 'All single-field deletions, type changes, value perturbations (numbers; ten hostile strings incl. the report\'s own row markup and surrogate escapes in both cases) and byte truncations of a valid answer x output modes; oracle: in-file report or one-line diagnostic with exit status 1.',
            'the answer menu is built from the fields LanguageTool sends', 'exhaustive answer-fault enumeration (deviation bound 1, pairs in thorough); CLI conformance replay'),
    'C16': ('model_checking', 'Plain-input sources (incl. missing final line break, trailing blank lines, form feed / U+2028 / NEL inside lines) x all sets of up to 2 matches (3 on short sources) over all in-range offsets and lengths x context sizes x hostile strings, and runs with two files; oracle parses the report with html.parser and compares rows, highlights and titles with the source.',
            'html.parser is the trusted reader of the markup', TECH + '; HTML structure model'),
    'C17': ('model_checking', 'Every call history up to depth 2 (quick; 3 thorough, plus depth 3 behind the writer calls) over 39 (document, options) calls, and every '
            'request history up to depth 3 (4) over 11 requests to one initialised server, is executed in a forked child of a pristine worker; the last '
            'result and its immediate repetition are compared with the same call made alone in a fresh process. Each edge records a canonical fingerprint '
            'of all yalafi module state before and after the call; evidence reports distinct states, edges and whether the state graph is closed. '
            'Three request sequences are replayed against a real --as-server process.',
            'fingerprint covers module globals, defaults, closures and class attributes of yalafi.*; the differential comparison guards it up to the explored depth',
            'explicit-state exploration of call histories on the real interpreter with state hashing; fresh-process differential oracle'),
    'C18': ('model_checking', 'Extraction: listed/unlisted macros in every context. Inclusion: all 2197 inclusion graphs over three files x start lists x skip patterns through the real top-level shell code; oracle is a 7-line work-list model; CLI conformance.',
            'three files suffice to exhibit cycles, self-inclusion and duplicates', TECH + '; work-list model over all graphs'),
    'C19': ('model_checking', 'Documents with declared and undeclared names in every context, before/after definitions, package selections and package lists, babel and glossary constructs; oracle: ordered set of first uses.',
            'contexts are those of the statement', TECH + '; first-use list model'),
    'C20': ('model_checking', 'create_single_letter_matches on all texts up to length 5/6 over 11 symbols x 12 accept lists and create_equation_punct_messages on all token sequences up to 4/5 x 3 modes, compared with matchers written without re; offset/length/context must select the same characters.',
            'overlapping accepted occurrences and glued placeholders are outside the model (statement silent)', TECH + ' (matchers without re)'),
}

NOT_BUILT = 'check not built yet in this revision of /verif (work in progress, see DESIGN.md section 8)'


def build():
    checks = []
    na = []
    for pid in registry.IDS:
        try:
            importlib.import_module('ymc.checks.' + pid.lower())
        except ModuleNotFoundError:
            na.append({'property_id': pid, 'reason': NOT_BUILT})
            continue
        level, text, note, tech = TEXT[pid]
        checks.append({
            'property_id': pid,
            'quick_cmd': '%s -m ymc run %s --tier quick' % (PY, pid),
            'thorough_cmd': '%s -m ymc run %s --tier thorough' % (PY, pid),
            'evidence_file': '/verif/evidence/%s.json' % pid,
            'replay_cmd_template': '%s -m ymc replay {path}' % PY,
            'engine': 'ymc',
            'level_claimed': {'category': level, 'text': text, 'design_ref': 'DESIGN.md section 3, ' + pid},
            'level_note': note,
            'technique': tech,
        })
    m = {
        'version': 1,
        'setup_cmd': '%s -m ymc selftest' % PY,
        'hooks': {
            'guard': 'YALAFI_VERIF',
            'enable': 'none needed: every check observes public interfaces of /repo (return values, stdout/stderr/exit status, HTTP answers); '
                      'the only seams are in the harness process (yalafi.shell.server.run_server and proofreader.subprocess.run are replaced there)',
            'baseline_off_cmd': BASELINE_OFF,
            'source_commits': [],
            'add_only': True,
        },
        'engines': [{'name': 'ymc', 'path': '/verif/ymc', 'serves_properties': [c['property_id'] for c in checks],
                     'kind_free_text': 'hand-written explicit-state / stateless explorer for Python: finite generators enumerated exhaustively, '
                                       'each state executed on the real yalafi code in 16 long-lived workers, judged against reference models'}],
        'checks': checks,
        'notes': 'Exit 0 = held on everything explored; exit 1 + VIOLATION line = violation; exit 2 = harness error (never with a VIOLATION line). '
                 'known_findings.json lists repaired defects (status fixed) - nothing is suppressed.',
        'not_applicable': na,
    }
    with open(os.path.join(VERIF, 'MANIFEST.json'), 'w') as f:
        json.dump(m, f, indent=1)
    return m


if __name__ == '__main__':
    m = build()
    print('claimed:', [c['property_id'] for c in m['checks']])
    print('not yet:', [c['property_id'] for c in m['not_applicable']])
