"""Explorer core: bounded exhaustive enumeration of a finite generator, every
state executed on the real implementation in long-lived worker processes and
judged by the check's oracle.  See DESIGN.md section 2.1.

A check is a class with
    id, level, rule, assumptions, design_ref
    bounds(tier)            -> dict reported in the evidence
    cases(tier, seed)       -> iterator of JSON-serialisable cases, smallest
                               first; the enumeration is the same for every
                               seed (the seed only picks conformance subsets)
    judge(case)             -> Verdict (dict), executed in a worker:
         'viol':  list of {'clause':..., 'sig':..., 'detail':...}
         'out':   hashable summary of what the implementation returned
         'nt':    True if the case is non-trivial by the check's rule
         'tr':    number of generator transitions this state accounts for
         'cnt':   optional dict of extra integer counters (summed)
         'sets':  optional dict name -> list of hashables (distinct-counted)
    finish(ctx)             -> optional hook in the parent after the sweep
                               (conformance replays); returns extra coverage
"""
import hashlib
import json
import multiprocessing as mp
import os
import shutil
import signal
import subprocess
import sys
import tempfile
import time
import traceback

VERIF = os.path.dirname(os.path.dirname(os.path.abspath(__file__)))
REPO = os.environ.get('YMC_REPO', '/repo')
OUT = os.environ.get('YMC_OUT', VERIF)     # development runs against a patched copy write elsewhere
WATCHDOG_S = 10.0
NPROC = int(os.environ.get('YMC_NPROC', '16'))


class Hang(Exception):
    pass


class HarnessError(Exception):
    """The machinery itself is wrong (never reported as a VIOLATION)."""


def h64(obj):
    if not isinstance(obj, (bytes, str)):
        obj = json.dumps(obj, sort_keys=True, ensure_ascii=False, default=repr)
    if isinstance(obj, str):
        obj = obj.encode('utf-8', 'surrogatepass')
    return int.from_bytes(hashlib.blake2b(obj, digest_size=8).digest(), 'big')


def norm(case):
    """JSON round trip: what a replay file will contain."""
    return json.loads(json.dumps(case))


# ---------------------------------------------------------------- workers

_check = None
_scratch = None


def scratch_dir():
    """per-process scratch directory below the run's root (removed by parent)"""
    global _scratch
    if _scratch is None or not os.path.isdir(_scratch):
        root = os.environ.get('YMC_SCRATCH')
        if not root:
            root = tempfile.mkdtemp(prefix='ymc-')
            os.environ['YMC_SCRATCH'] = root
        _scratch = os.path.join(root, 'w%d' % os.getpid())
        os.makedirs(_scratch, exist_ok=True)
    return _scratch


def _alarm(signum, frame):
    raise Hang()


def _init_worker(check_id):
    global _check
    from . import registry
    signal.signal(signal.SIGALRM, _alarm)
    _check = registry.load(check_id)
    if hasattr(_check, 'init_worker'):
        _check.init_worker()


def judge_one(check, case):
    """run one case under the watchdog; never raises"""
    signal.setitimer(signal.ITIMER_REAL, WATCHDOG_S, 0.5)   # re-fires: a bare "except:" in the code under test may swallow one
    try:
        v = check.judge(case)
    except Hang:
        v = {'viol': [], 'out': 'HARNESS-HANG', 'nt': False, 'tr': 0,
             'harness': 'watchdog expired outside the implementation call'}
    except Exception:
        v = {'viol': [], 'out': 'HARNESS-EXC', 'nt': False, 'tr': 0,
             'harness': traceback.format_exc()}
    finally:
        signal.setitimer(signal.ITIMER_REAL, 0)
    return v


def _work(args):
    idx, chunk, want_outs = args
    res = {'idx': idx, 'n': 0, 'nt': [], 'outs': set(), 'viol': [], 'tr': 0,
           'cnt': {}, 'sets': {}, 'harness': [], 'samples': [],
           'out_list': [] if want_outs else None}
    hangs = 0
    for case in chunk:
        if hangs >= 3:
            # a violation is established; do not spend 10 s per further state of this chunk
            res['cnt']['not_run_after_3_watchdog_expiries_in_chunk'] = res['cnt'].get('not_run_after_3_watchdog_expiries_in_chunk', 0) + 1
            continue
        v = judge_one(_check, case)
        if v.get('hang'):
            hangs += 1
        res['n'] += 1
        res['tr'] += v.get('tr', 1)
        oh = h64(v.get('out'))
        res['outs'].add(oh)
        if want_outs:
            res['out_list'].append(oh)
        if v.get('nt'):
            res['nt'].append(h64(case))
            if len(res['samples']) < 1:
                res['samples'].append({'case': case, 'observed': _short(v.get('out'))})
        for k, n in (v.get('cnt') or {}).items():
            res['cnt'][k] = res['cnt'].get(k, 0) + n
        for k, items in (v.get('sets') or {}).items():
            res['sets'].setdefault(k, set()).update(h64(i) for i in items)
        if v.get('harness'):
            res['harness'].append((case, v['harness']))
        for viol in v.get('viol', []):
            if len(res['viol']) < 50:
                res['viol'].append((case, viol))
            else:
                res['viol'].append((None, {'clause': viol['clause'], 'sig': viol['sig']}))
    return res


def _short(x, n=300):
    s = x if isinstance(x, str) else json.dumps(x, ensure_ascii=False, default=repr)
    return s if len(s) <= n else s[:n] + '...'


# ---------------------------------------------------------------- known findings

def load_known():
    p = os.path.join(VERIF, 'known_findings.json')
    if not os.path.exists(p):
        return []
    with open(p) as f:
        return json.load(f).get('findings', [])


# ---------------------------------------------------------------- runner

def chunks_of(it, size):
    buf = []
    for x in it:
        buf.append(x)
        if len(buf) >= size:
            yield buf
            buf = []
    if buf:
        yield buf


def run_check(check, tier, seed, out=sys.stdout):
    t0 = time.time()
    root = tempfile.mkdtemp(prefix='ymc-%s-' % check.id)
    os.environ['YMC_SCRATCH'] = root
    try:
        return _run_check(check, tier, seed, out, t0)
    finally:
        shutil.rmtree(root, ignore_errors=True)


def _run_check(check, tier, seed, out, t0):
    from . import impl
    impl.assert_repo()
    import glob
    for old in glob.glob(os.path.join(OUT, 'replays', check.id + '-*.json')):
        os.unlink(old)
    base = getattr(check, 'chunk', 200)
    csize = base + seed % 7
    stats = {'states': 0, 'tr': 0, 'nt': set(), 'outs': set(), 'cnt': {},
             'sets': {}, 'samples': [], 'viol': [], 'harness': [],
             'viol_count': 0}
    caps = []
    stats_caps = caps
    budget = getattr(check, 'budget_s', {}).get(tier)
    det_first = None

    def absorb(r):
        stats['states'] += r['n']
        stats['tr'] += r['tr']
        stats['nt'].update(r['nt'])
        stats['outs'].update(r['outs'])
        for k, n in r['cnt'].items():
            stats['cnt'][k] = stats['cnt'].get(k, 0) + n
        for k, s in r['sets'].items():
            stats['sets'].setdefault(k, set()).update(s)
        if len(stats['samples']) < 3:
            stats['samples'] += r['samples'][:3 - len(stats['samples'])]
        stats['harness'] += r['harness']
        for case, v in r['viol']:
            stats['viol_count'] += 1
            if case is not None and len(stats['viol']) < 400:
                stats['viol'].append((case, v))

    if hasattr(check, 'prepare'):
        check.prepare(tier, seed)
    ctx = mp.get_context('fork')
    with ctx.Pool(NPROC, initializer=_init_worker, initargs=(check.id,)) as pool:
        pending = []
        gen = chunks_of(check.cases(tier, seed), csize)
        idx = 0
        exhausted = False
        # determinism guard: the first chunk is executed twice (two tasks)
        first = next(gen, None)
        if first is not None:
            a = pool.apply_async(_work, ((0, first, True),))
            b = pool.apply_async(_work, ((0, first, True),))
            ra, rb = a.get(), b.get()
            if ra['out_list'] != rb['out_list']:
                raise HarnessError('determinism guard: two executions of the '
                                   'first %d states differ' % len(first))
            det_first = len(first)
            absorb(ra)
            idx = 1
        while True:
            if not exhausted and stats['viol_count'] >= 2000:
                caps.append('enumeration stopped after 2000 violations')
                exhausted = True
            while not exhausted and len(pending) < 4 * NPROC:
                if budget and time.time() - t0 > budget:
                    caps.append('time budget %ds hit after %d chunks' % (budget, idx))
                    exhausted = True
                    break
                ch = next(gen, None)
                if ch is None:
                    exhausted = True
                    break
                pending.append(pool.apply_async(_work, ((idx, ch, False),)))
                idx += 1
            if not pending:
                break
            done = [p for p in pending if p.ready()]
            if not done:
                pending[0].wait(0.05)
                continue
            for p in done:
                pending.remove(p)
                absorb(p.get())

    if stats['harness']:
        case, tb = stats['harness'][0]
        raise HarnessError('oracle raised on case %s:\n%s' % (_short(case), tb))

    extra = {}
    if hasattr(check, 'finish'):
        try:
            extra = check.finish({'tier': tier, 'seed': seed, 'stats': stats}) or {}
        except HarnessError:
            raise
        except Exception:
            raise HarnessError('conformance step failed:\n' + traceback.format_exc())
        for case, v in extra.pop('viol', []):
            stats['viol_count'] += 1
            stats['viol'].append((case, dict(v, conformance=True)))

    # ---- violations: signatures, known findings, replay files
    known = [k for k in load_known() if k.get('property') == check.id]
    open_sigs = {k['signature']: k for k in known if k.get('status') == 'open'}
    reported = {}
    known_hit = {}
    for case, v in stats['viol']:
        sig = v['sig']
        if sig in open_sigs:
            known_hit.setdefault(sig, (case, v))
            continue
        reported.setdefault(sig, []).append((case, v))
    n_unknown = sum(len(x) for x in reported.values())
    for sig, (case, v) in known_hit.items():
        out.write('KNOWN-FINDING: property=%s %s\n' % (check.id, open_sigs[sig].get('what', sig)))
    replay_paths = []
    if reported:
        os.makedirs(os.path.join(OUT, 'replays'), exist_ok=True)
        for sig, lst in sorted(reported.items()):
            lst.sort(key=lambda cv: len(json.dumps(cv[0])))
            case, v = lst[0]
            rec = {'property': check.id, 'clause': v['clause'], 'signature': sig, 'conformance': bool(v.get('conformance')),
                   'case': case, 'detail': v.get('detail'), 'tier': tier,
                   'cases_with_this_signature': len(lst)}
            name = '%s-%016x.json' % (check.id, h64([sig, case]))
            path = os.path.join(OUT, 'replays', name)
            with open(path, 'w') as f:
                json.dump(rec, f, indent=1, ensure_ascii=False, default=repr)
            replay_paths.append(path)
            if len(replay_paths) >= 12:
                break
        # a violation is re-executed in a fresh process before it is reported
        for path in replay_paths[:3]:
            r = subprocess.run([sys.executable, '-m', 'ymc', 'replay', path, '--quiet'],
                               cwd=VERIF, stdout=subprocess.PIPE, stderr=subprocess.PIPE)
            if r.returncode != 1:
                raise HarnessError('violation %s did not reproduce in a fresh process '
                                   '(rc=%d)\n%s' % (path, r.returncode, r.stderr.decode()[-2000:]))
        for path in replay_paths:
            out.write('VIOLATION property=%s replay=%s\n' % (check.id, path))

    if stats['cnt'].get('not_run_after_3_watchdog_expiries_in_chunk'):
        caps.append('%d states not run after repeated watchdog expiries' % stats['cnt']['not_run_after_3_watchdog_expiries_in_chunk'])
    wall = time.time() - t0
    coverage = {
        'states': stats['states'],
        'transitions': max(stats['tr'], 1) if stats['states'] else 0,
        'traces_validated_against_impl': stats['states'] + int(extra.get('conformance_replays', 0)),
        'evaluations': stats['states'] * getattr(check, 'evals_per_state', 1) + stats['cnt'].pop('evaluations', 0),
        'distinct_nontrivial': len(stats['nt']),
        'distinct_outcomes': len(stats['outs']),
        'rule': check.rule,
        'samples': stats['samples'] or [{'note': 'no non-trivial case'}],
        'bounds': check.bounds(tier),
        'caps_hit': caps,
        'exhaustive': not caps,
        'determinism_guard_states': det_first,
        'workers': NPROC,
        'counters': stats['cnt'],
        'distinct': {k: len(s) for k, s in stats['sets'].items()},
        'known_findings_seen': sorted(known_hit),
        'how_validated': 'every state is executed on the implementation in /repo (no separate model traces); '
                         'traces_validated_against_impl counts those executions plus end-to-end conformance replays',
    }
    coverage.update(extra)
    ev = {'property_id': check.id, 'tier': tier, 'seed': seed, 'level': check.level,
          'coverage': coverage, 'assumptions': list(check.assumptions),
          'wall_s': round(wall, 2), 'violations': n_unknown}
    os.makedirs(os.path.join(OUT, 'evidence'), exist_ok=True)
    with open(os.path.join(OUT, 'evidence', check.id + '.json'), 'w') as f:
        json.dump(ev, f, indent=1, ensure_ascii=False, default=repr)
    out.write('%s tier=%s seed=%d states=%d transitions=%d outcomes=%d nontrivial=%d '
              'violations=%d known=%d wall=%.1fs%s\n' % (
                  check.id, tier, seed, stats['states'], coverage['transitions'],
                  len(stats['outs']), len(stats['nt']), n_unknown, len(known_hit), wall,
                  ' CAPS=' + '; '.join(caps) if caps else ''))
    return 1 if reported else 0
