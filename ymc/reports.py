"""Readers for the report formats of yalafi.shell (used by C14, C15, C16)."""
import html.parser
import json
import re
import xml.etree.ElementTree as ET


def line_col(tex, offset):
    """1-based line and column of a 0-based offset"""
    lin = tex.count('\n', 0, offset) + 1
    col = offset - (tex.rfind('\n', 0, offset) + 1) + 1
    return lin, col


def parse_plain(out):
    """-> list of dicts: file, nr, line, column, rule, message, suggestion, context, marked"""
    res = []
    lines = out.split('\n')
    i = 0
    while i < len(lines):
        m = re.match(r'^(\d+)\.\) Line (\d+), column (\d+), Rule ID: (.*)$', lines[i])
        if m and i > 0 and lines[i - 1].startswith('=== '):
            d = {'file': lines[i - 1][4:-4], 'nr': int(m.group(1)), 'line': int(m.group(2)), 'column': int(m.group(3)), 'rule': m.group(4)}
            j = i + 1
            if j < len(lines) and lines[j].startswith('Message: '):
                d['message'] = lines[j][9:]
                j += 1
            if j < len(lines) and lines[j].startswith('Suggestion: '):
                d['suggestion'] = lines[j][12:]
                j += 1
            if j + 1 < len(lines):
                d['context'] = lines[j]
                carets = lines[j + 1]
                beg = len(carets) - len(carets.lstrip(' '))
                n = carets.count('^')
                d['marked'] = lines[j][beg:beg + n]
            res.append(d)
        i += 1
    return res


def parse_json(out):
    return json.loads(out)['matches']


def parse_xml(out):
    res = []
    for line in out.split('\n'):
        if line.startswith('<error '):
            try:
                res.append(dict(ET.fromstring(line).attrib))
            except ET.ParseError:
                # e.g. a control character from the proofreader's message: read the location attributes only
                res.append(dict(re.findall(r'(fromy|fromx|toy|tox)="([^"]*)"', line)))
    return res


class HtmlReport(html.parser.HTMLParser):
    """collects numbered rows, highlights (span with title) and every tag seen"""

    def __init__(self):
        super().__init__(convert_charrefs=True)
        self.tags = []
        self.rows = []              # [number text, cell text] for the main tables
        self.highlights = []        # dict title, text, table index
        self._cell = None
        self._row = None
        self._spans = []
        self.table = -1
        self.bad = []

    def handle_starttag(self, tag, attrs):
        self.tags.append(tag)
        a = dict(attrs)
        if tag == 'table':
            self.table += 1
        elif tag == 'tr':
            self._row = []
        elif tag == 'td':
            self._cell = ''
        elif tag == 'span':
            self._spans.append({'title': a.get('title'), 'text': '', 'table': self.table, 'style': a.get('style')})
        elif tag == 'br':
            if self._cell is not None:
                self._cell += '\n'
            for s in self._spans:
                s['text'] += '\n'

    def handle_endtag(self, tag):
        if tag == 'td' and self._cell is not None and self._row is not None:
            self._row.append(self._cell)
            self._cell = None
        elif tag == 'tr' and self._row is not None:
            self.rows.append((self.table, self._row))
            self._row = None
        elif tag == 'span' and self._spans:
            self.highlights.append(self._spans.pop())

    def handle_data(self, data):
        if self._cell is not None:
            self._cell += data
        for s in self._spans:
            s['text'] += data


def parse_html(out):
    p = HtmlReport()
    p.feed(out)
    p.close()
    return p


def html_text(s):
    """cell text -> source text: the report codes a blank as &ensp; (U+2002) and a tab as 8 of them"""
    return s.replace(' ', ' ')
