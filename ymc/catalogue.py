"""Construct catalogue with a denotational reference semantics (DESIGN 2.2).

A document is a *forest* over the catalogue: a list of trees, a tree is
[name, slot0, slot1, ...] and every slot again holds a forest.  render()
produces the LaTeX source together with the predicted output as ordered
segments per text flow:

    ['C', text, offset]          text copied from the source at that offset
    ['S', out, offset]           documented replacement of a special sequence,
                                 mapped to the first character of the sequence
    ['G', text, node]            generated text; node = index into nodes[]
                                 text may be ('re', pattern)
    hidden words H..q            must not appear anywhere

The meaning of each entry is written from the documentation (README "Filter
actions", list-of-macros.md, the property statements), not from
yalafi/parameters.py.
"""
import itertools
import re

WORD_RE = re.compile(r'W[a-z][a-z]q')
HID_RE = re.compile(r'H[a-z][a-z]q')
ASCII_WS = ' \n\t'

PROOF = {'en': 'Proof', 'de': 'Beweis', 'ru': 'Доказательство'}
INLINE_RE = {'en': '[B-G]-[B-G]-[B-G]', 'de': '[B-G]-[B-G]-[B-G]',
             'ru': '[Б-Ж]-[Б-Ж]-[Б-Ж]'}
DISPLAY_RE = {'en': '[U-Z]-[U-Z]-[U-Z]', 'de': '[U-Z]-[U-Z]-[U-Z]',
              'ru': '[ЦЧШЫЭЮ]-[ЦЧШЫЭЮ]-[ЦЧШЫЭЮ]'}


def wname(prefix, n):
    return prefix + chr(97 + n // 26) + chr(97 + n % 26) + 'q'


class Invalid(Exception):
    """the tree is outside the generator's rules (reason in args[0])"""


class Ctx:
    def __init__(self, sep=' ', lang='en'):
        self.parts = []
        self.n = 0
        self.sep = sep
        self.lang = lang
        self.main = []              # main flow
        self.detached = []          # finished detached flows, implementation order
        self.stack = [self.main]
        self.nw = 0
        self.nh = 0
        self.ng = 0
        self.hidden = []
        self.words = []             # (word, offset, flow id, node path)
        self.nodes = []             # dicts: name, a, b, flags, parent
        self.path = []              # open node indices
        self.enum = []              # enumerate nesting (for labels)
        self.items = []             # itemize nesting
        self.preamble = {}          # feature -> True
        self.umac = 0
        self.nested_detached = False
        self.flow_depth = 0
        self.wsvalued = []          # spans of white-space valued specials
        self.facts = {}

    # ---- source writing
    def pos(self):
        return self.n

    def w(self, s):
        o = self.n
        self.parts.append(s)
        self.n += len(s)
        return o

    def src(self):
        return ''.join(self.parts)

    def seg(self, s):
        self.stack[-1].append(s)

    def word(self):
        name = wname('W', self.nw)
        self.nw += 1
        o = self.w(name)
        self.seg(['C', name, o])
        self.words.append((name, o, id(self.stack[-1]), tuple(self.path)))
        return name

    def copy(self, text):
        o = self.w(text)
        self.seg(['C', text, o])

    def hid(self):
        name = wname('H', self.nh)
        self.nh += 1
        self.hidden.append(name)
        self.w(name)
        return name

    def gword(self):
        name = wname('G', self.ng)
        self.ng += 1
        return name

    def sub(self, src, out):
        o = self.w(src)
        if out.strip(ASCII_WS):
            self.seg(['S', out, o])
        else:
            self.wsvalued.append((o, o + len(src)))

    def gen(self, text, node=None):
        if node is None:
            node = self.path[-1]
        self.seg(['G', text, node])

    # ---- nodes
    def open(self, name, flags=()):
        idx = len(self.nodes)
        self.nodes.append({'name': name, 'a': self.n, 'b': None, 'flags': tuple(flags),
                           'parent': self.path[-1] if self.path else None})
        self.path.append(idx)
        return idx

    def close(self):
        idx = self.path.pop()
        self.nodes[idx]['b'] = self.n
        return idx

    # ---- flows
    def detach_begin(self):
        if self.flow_depth > 0:
            self.nested_detached = True
        self.flow_depth += 1
        f = []
        self.stack.append(f)
        return f

    def detach_end(self):
        f = self.stack.pop()
        self.flow_depth -= 1
        self.detached.append(f)

    def flows(self):
        return [self.main] + self.detached

    # ---- layout
    def gap(self, inline_only=False):
        s = self.sep
        if inline_only and s == '\n':
            s = ' '
        self.w(s)


# ---------------------------------------------------------------- entries

CAT = {}
META = {}


def slot(ctx, forest, optslot=False):
    """text slot: word, then each child framed by separators and words"""
    ctx.word()
    for kid in forest or []:
        a = ctx.pos()
        io = META[kid[0]].get('inline_only', False)
        ctx.gap(io)
        emit(ctx, kid)
        if optslot and (']' in ''.join(ctx.parts)[a:] or '[' in ''.join(ctx.parts)[a:]):
            raise Invalid('bracket inside optional-argument slot')
        ctx.gap(io)
        ctx.word()


def emit(ctx, tree):
    name = tree[0]
    meta = META[name]
    if meta.get('lang') and ctx.lang not in meta['lang']:
        raise Invalid('entry needs language ' + '/'.join(meta['lang']))
    kids = list(tree[1:]) + [None] * (meta['slots'] - len(tree) + 1)
    CAT[name](ctx, kids)


def reg(name, slots=0, cls='copy', **meta):
    def deco(f):
        CAT[name] = f
        META[name] = dict(slots=slots, cls=cls, **meta)
        return f
    return deco


def simple(name, template, cls, flags=(), **meta):
    """template pieces: ('lit', s) ('slot', k[, optslot]) ('hid',) ('gen', text)
    ('sub', src, out) ('detach', k) ('copy', s)"""
    nslots = 1 + max([p[1] for p in template if p[0] in ('slot', 'detach')], default=-1)

    def f(ctx, kids):
        ctx.open(name, flags)
        for p in template:
            if p[0] == 'lit':
                ctx.w(p[1])
            elif p[0] == 'copy':
                ctx.copy(p[1])
            elif p[0] == 'slot':
                slot(ctx, kids[p[1]], optslot=len(p) > 2 and p[2])
            elif p[0] == 'hid':
                ctx.hid()
            elif p[0] == 'gen':
                ctx.gen(p[1])
            elif p[0] == 'sub':
                ctx.sub(p[1], p[2])
            elif p[0] == 'detach':
                ctx.detach_begin()
                slot(ctx, kids[p[1]])
                ctx.detach_end()
        ctx.close()
    CAT[name] = f
    META[name] = dict(slots=nslots, cls=cls, **meta)


def L(s): return ('lit', s)
def S(k, opt=False): return ('slot', k, opt)
H = ('hid',)
def G(t): return ('gen', t)
def D(k): return ('detach', k)
def SUB(s, c): return ('sub', s, c)
def CP(s): return ('copy', s)


WS = ('wsgen',)

# ---- copy-through
simple('group', [L('{'), S(0), L('}')], 'copy')
simple('unk1', [L('\\xxx{'), S(0), L('}')], 'copy')
simple('unk2', [L('\\xxx'), CP('['), S(0, True), CP(']'), L('{'), S(1), L('}')], 'copy')
simple('textbf', [L('\\textbf{'), S(0), L('}')], 'copy')
simple('framebox', [L('\\framebox[w][c]{'), S(0), L('}')], 'copy')
simple('textcolor', [L('\\textcolor{red}{'), S(0), L('}')], 'copy')
simple('colorbox', [L('\\colorbox{red}{'), S(0), L('}')], 'copy')
simple('fcolorbox', [L('\\fcolorbox{a}{b}{'), S(0), L('}')], 'copy')
simple('href', [L('\\href{'), H, L('}{'), S(0), L('}')], 'copy')
simple('url', [L('\\url{'), S(0), L('}')], 'copy')
simple('texorpdf', [L('\\texorpdfstring{'), S(0), L('}{'), H, L('}')], 'copy')
simple('LTadd', [L('\\LTadd{'), S(0), L('}')], 'copy')
simple('LTalter', [L('\\LTalter{'), H, L('}{'), S(0), L('}')], 'copy')
simple('glsdisp', [L('\\glsdisp{'), H, L('}{'), S(0), L('}')], 'copy')
simple('unkenv', [L('\\begin{uenv}'), S(0), L('\\end{uenv}')], 'copy')
simple('center', [L('\\begin{center}'), S(0), L('\\end{center}')], 'copy', WS, par=True)
simple('figure', [L('\\begin{figure}[h]'), S(0), L('\\end{figure}')], 'copy')
simple('table', [L('\\begin{table}[h]'), S(0), L('\\end{table}')], 'copy')
simple('minipage', [L('\\begin{minipage}{w}'), S(0), L('\\end{minipage}')], 'copy', WS, par=True)
simple('tabular', [L('\\begin{tabular}{cc}'), S(0), L(' '), SUB('&', ' '), L(' '), S(1), L(' '), SUB('\\\\', ' '), L(' '), S(2),
                   L('\\end{tabular}')], 'copy')

# ---- hidden
simple('label', [L('\\label{'), H, L('}')], 'hidden')
simple('index', [L('\\index{'), H, L('}')], 'hidden')
simple('LTskip', [L('\\LTskip{'), H, L('}')], 'hidden')
simple('vphantom', [L('\\vphantom{'), H, L('}')], 'hidden')
simple('includegraphics', [L('\\includegraphics['), H, L(']{'), H, L('}')], 'hidden')
simple('input', [L('\\input{'), H, L('}')], 'hidden')
simple('include', [L('\\include{'), H, L('}')], 'hidden')
simple('color', [L('\\color{'), H, L('}')], 'hidden')
simple('pagestyle', [L('\\pagestyle{'), H, L('}')], 'hidden')
simple('geometry', [L('\\geometry{'), H, L('}')], 'hidden')
simple('tikzset', [L('\\tikzset{'), H, L('}')], 'hidden')
simple('lstset', [L('\\lstset{'), H, L('}')], 'hidden')
simple('definecolor', [L('\\definecolor{'), H, L('}{'), H, L('}{'), H, L('}')], 'hidden')
simple('addbibresource', [L('\\addbibresource{'), H, L('}')], 'hidden')
simple('comment', [L('% '), H, L('\n')], 'hidden')
simple('skipregion', [L('%%% LT-SKIP-BEGIN\n'), H, L('\n%%% LT-SKIP-END\n')], 'hidden')
simple('tikz', [L('\\begin{tikzpicture}'), H, L('\\end{tikzpicture}')], 'hidden')
simple('lstlisting', [L('\\begin{lstlisting}'), H, L('\\end{lstlisting}')], 'hidden', WS, par=True)
simple('circuitikz', [L('\\begin{circuitikz}'), H, L('\\end{circuitikz}')], 'hidden')

# ---- generated
simple('ref', [L('\\ref{'), H, L('}'), G('0')], 'gen')
simple('pageref', [L('\\pageref{'), H, L('}'), G('0')], 'gen')
simple('eqref', [L('\\eqref{'), H, L('}'), G('(0)')], 'gen')
simple('LaTeX', [L('\\LaTeX{}'), G('LaTeX')], 'gen')
simple('TeX', [L('\\TeX{}'), G('TeX')], 'gen')
simple('Smac', [L('\\S{}'), G('§')], 'gen')
simple('ss', [L('\\ss{}'), G('ß')], 'gen')
simple('textbackslash', [L('\\textbackslash{}'), G('\\')], 'gen')
simple('par', [L('\\par{}')], 'gen', WS, par=True)
simple('newline', [L('\\newline{}')], 'gen', WS)
simple('hfill', [L('\\hfill{}')], 'gen', WS)
simple('hspace', [L('\\hspace{1cm}')], 'gen', WS)
simple('hspace0', [L('\\hspace{0pt}')], 'gen')
simple('vspace', [L('\\vspace{1cm}')], 'gen', WS)
simple('phantom', [L('\\phantom{'), H, L('}')], 'gen', WS)
simple('cite', [L('\\cite{'), H, L('}'), G('[0]')], 'gen')
simple('citeopt', [L('\\cite['), G('[0,'), S(0, True), L(']{'), H, L('}'), G(']')], 'gen', WS)
simple('parencite', [L('\\parencite['), G('['), S(0, True), L(']['), G('0,'), S(1, True), L(']{'), H, L('}'), G(']')], 'gen', WS)
simple('section', [L('\\section{'), S(0), L('}'), G('.')], 'gen', WS)
simple('sectionopt', [L('\\section*['), H, L(']{'), S(0), L('}'), G('.')], 'gen', WS)
simple('subsection', [L('\\subsection{'), S(0), L('}'), G('.')], 'gen', WS)
simple('title', [L('\\title{'), S(0), L('}'), G('.')], 'gen', WS)

# ---- detached
simple('footnote', [L('\\footnote{'), D(0), L('}')], 'detached', WS)
simple('footnote1', [L('\\footnote[1]{'), D(0), L('}')], 'detached', WS)
simple('footnotetext', [L('\\footnotetext{'), D(0), L('}')], 'detached', WS)
simple('caption', [L('\\caption{'), D(0), L('}')], 'detached', WS)
simple('captionopt', [L('\\caption['), H, L(']{'), D(0), L('}')], 'detached', WS)

# ---- specials
simple('endash', [SUB('--', '–')], 'special')
simple('emdash', [SUB('---', '—')], 'special')
simple('quotes', [SUB('``', '“'), S(0), SUB("''", '”')], 'special')
simple('tie', [SUB('~', ' ')], 'special', inline_only=True)
simple('thin', [SUB('\\,', ' ')], 'special', inline_only=True)
simple('pct', [SUB('\\%', '%')], 'special')
simple('amp', [SUB('\\&', '&')], 'special')
simple('dollar', [SUB('\\$', '$')], 'special')
simple('hash', [SUB('\\#', '#')], 'special')
simple('uscore', [SUB('\\_', '_')], 'special')
simple('lbrace', [SUB('\\{', '{')], 'special')
simple('rbrace', [SUB('\\}', '}')], 'special')
simple('dbslash', [SUB('\\\\', ' ')], 'special', inline_only=True)
simple('dbslashopt', [SUB('\\\\', ' '), L('[2ex]')], 'special', inline_only=True)
simple('ampersand', [SUB('&', ' ')], 'special', inline_only=True)
simple('acute', [SUB("\\'e", 'é')], 'special')
simple('uml', [SUB('\\"{o}', 'ö')], 'special')
simple('cedilla', [SUB('\\c{c}', 'ç')], 'special')
simple('de_a', [SUB('"a', 'ä')], 'special', lang=('de',))
simple('de_s', [SUB('"s', 'ß')], 'special', lang=('de',))
simple('de_glqq', [SUB('"`', '„'), S(0), SUB('"\'', '“')], 'special', lang=('de',))
simple('de_hyph', [SUB('"=', '-')], 'special', lang=('de',))
simple('de_void', [L('"-')], 'special', lang=('de',))


@reg('footcite', slots=1, cls='detached', flags=WS)
def _footcite(ctx, kids):
    n = ctx.open('footcite', WS)
    ctx.w('\\footcite[')
    ctx.detach_begin()
    ctx.gen('[0,', n)
    slot(ctx, kids[0], optslot=True)
    ctx.w(']{')
    ctx.hid()
    ctx.w('}')
    ctx.gen('].', n)
    ctx.detach_end()
    ctx.close()


def item_env(name, envname, labels):
    @reg(name, slots=2, cls='gen', par=False)
    def f(ctx, kids):
        ctx.open(name + '-frame', WS)
        stack = ctx.enum if envname == 'enumerate' else ctx.items
        stack.append(0)
        level = len(stack) - 1
        ctx.w('\\begin{%s}' % envname)
        for k in (0, 1):
            ctx.gap()
            n = ctx.open(name + '-item', WS)
            ctx.w('\\item ')
            lab = labels(level, k)
            if lab:
                ctx.gen(lab, n)
            ctx.close()
            slot(ctx, kids[k])
        ctx.gap()
        ctx.w('\\end{%s}' % envname)
        stack.pop()
        ctx.close()


item_env('itemize', 'itemize', lambda level, k: '')
item_env('enumerate', 'enumerate', lambda level, k: (str(k + 1) + '.') if level == 0 else (chr(97 + k) + '.'))


@reg('itemlab', slots=2, cls='gen')
def _itemlab(ctx, kids):
    ctx.open('itemlab-frame', WS)
    ctx.items.append(0)
    ctx.w('\\begin{itemize}')
    ctx.gap()
    ctx.open('itemlab-item', WS)
    ctx.w('\\item[')
    slot(ctx, kids[0], optslot=True)
    ctx.w('] ')
    ctx.close()
    slot(ctx, kids[1])
    ctx.gap()
    ctx.w('\\end{itemize}')
    ctx.items.pop()
    ctx.close()


@reg('itemlabpunct', slots=2, cls='gen')
def _itemlabpunct(ctx, kids):
    # an \item[label] behind text that ends with a punctuation mark: the mark is repeated behind the label
    ctx.copy(':')
    ctx.gap()
    ctx.open('itemlab-frame', WS)
    ctx.items.append(0)
    ctx.w('\\begin{itemize}')
    ctx.gap()
    n = ctx.open('itemlab-item', WS)
    ctx.w('\\item[')
    slot(ctx, kids[0], optslot=True)
    ctx.w(']')
    ctx.gen(':', n)
    ctx.w(' ')
    ctx.close()
    slot(ctx, kids[1])
    ctx.gap()
    ctx.w('\\end{itemize}')
    ctx.items.pop()
    ctx.close()


@reg('itemlabverb', slots=2, cls='gen')
def _itemlabverb(ctx, kids):
    # the token in front of \item[label] is a multi-character token ending with a punctuation mark
    ctx.open('verb', ())
    ctx.w('\\verb|')
    ctx.word()
    ctx.copy(';')
    ctx.w('|')
    ctx.close()
    ctx.gap()
    ctx.open('itemlab-frame', WS)
    ctx.w('\\begin{itemize}')
    ctx.gap()
    n = ctx.open('itemlab-item', WS)
    ctx.w('\\item[')
    slot(ctx, kids[0], optslot=True)
    ctx.w(']')
    ctx.gen(';', n)
    ctx.w(' ')
    ctx.close()
    slot(ctx, kids[1])
    ctx.gap()
    ctx.w('\\end{itemize}')
    ctx.close()


@reg('enumnested', slots=2, cls='gen')
def _enumnested(ctx, kids):
    # an empty enumerate item that opens a list with an explicit label: the label follows the generated '1.'
    ctx.open('enumerate-frame', WS)
    ctx.w('\\begin{enumerate}')
    ctx.gap()
    n = ctx.open('enumerate-item', WS)
    ctx.w('\\item ')
    ctx.gen('1.' if not ctx.enum else 'a.', n)
    ctx.close()
    ctx.enum.append(0)
    ctx.open('itemlab-frame', WS)
    ctx.w('\\begin{itemize}')
    ctx.gap()
    m = ctx.open('itemlab-item', WS)
    ctx.w('\\item[')
    slot(ctx, kids[0], optslot=True)
    ctx.w(']')
    ctx.gen('.', m)
    ctx.w(' ')
    ctx.close()
    slot(ctx, kids[1])
    ctx.gap()
    ctx.w('\\end{itemize}')
    ctx.close()
    ctx.enum.pop()
    ctx.gap()
    ctx.w('\\end{enumerate}')
    ctx.close()


@reg('ltinput', cls='hidden')
def _ltinput(ctx, kids):
    # a readable file of definitions: its text is dropped, everything seen before stays
    ctx.open('ltinput', ())
    ctx.w('\\LTinput{ymcinput.tex}')
    ctx.close()
    if 'Hzzq' not in ctx.hidden:
        ctx.hidden.append('Hzzq')


@reg('ltinputempty', cls='hidden')
def _ltinputempty(ctx, kids):
    # a readable file of length zero: nothing is defined, nothing is wrong
    ctx.open('ltinput', ())
    ctx.w('\\LTinput{ymcempty.tex}')
    ctx.close()


@reg('verbatimspace', cls='verbatim', par=True)
def _verbatimspace(ctx, kids):
    ctx.open('verbatim', WS)
    ctx.w('\\begin  {verbatim}\n')
    ctx.word()
    ctx.w('\n\\end{verbatim}')
    ctx.close()


@reg('um_definer', cls='user')
def _um_definer(ctx, kids):
    # a macro that is (re)defined while the body of another macro is expanded, and used afterwards:
    # everything it prints is text of its body and belongs to its own call
    g, h = ctx.gword(), ctx.gword()
    ctx.w('\\newcommand{\\mNm}{}\\newcommand{\\mSet}[1]{\\renewcommand{\\mNm}{%s #1}}' % g)
    ctx.gap()
    ctx.open('um_definer-set', WS)
    ctx.w('\\mSet{%s}' % h)
    ctx.close()
    ctx.gap()
    ctx.word()
    ctx.gap()
    n = ctx.open('um_definer-use', WS)
    ctx.w('\\mNm{}')
    ctx.gen(g, n)
    ctx.gen(h, n)
    ctx.close()


@reg('um_heading', cls='user')
def _um_heading(ctx, kids):
    # a heading that comes from the body of a user macro: title, dot and all belong to the call
    g = ctx.gword()
    # (the title ends with a token that is longer than the call of the macro)
    ctx.w('\\newcommand{\\mSn}{\\section{%s \\textbackslash}}' % g)
    ctx.gap()
    n = ctx.open('um_heading', WS)
    ctx.w('\\mSn{}')
    ctx.gen(g, n)
    ctx.gen('\\', n)
    ctx.gen('.', n)
    ctx.close()


@reg('um_headq', slots=1, cls='user')
def _um_headq(ctx, kids):
    # a heading whose last token is a user macro ending in a question mark: the expansion decides, no dot is added
    if not getattr(ctx, 'headq_declared', False):
        ctx.headq_declared = True
        ctx.w('\\newcommand{\\mUq}[1]{#1?}')
        ctx.gap()
    ctx.open('um_headq-frame', WS)
    ctx.w('\\section{')
    n = ctx.open('um_headq', WS)
    ctx.w('\\mUq{')
    slot(ctx, kids[0])
    ctx.w('}')
    ctx.gen('?', n)
    ctx.close()
    ctx.w('}')
    ctx.close()


@reg('accentverb', cls='special')
def _accentverb(ctx, kids):
    # an accent applied to the first character of verbatim text: the rest keeps its own offsets
    ctx.open('accentverb', ())
    o = ctx.w("\\'{\\verb|")
    ctx.seg(['S', '\u00e9', o])
    ctx.w('e')
    ctx.copy('bc')
    ctx.w('|}')
    ctx.close()


@reg('proof', slots=1, cls='gen', par=True)
def _proof(ctx, kids):
    ctx.open('proof-frame', WS)
    n = ctx.open('proof-begin', WS)
    ctx.w('\\begin{proof}')
    ctx.gen(PROOF[ctx.lang] + '.', n)
    ctx.close()
    ctx.gap()
    slot(ctx, kids[0])
    ctx.gap()
    ctx.w('\\end{proof}')
    ctx.close()


@reg('proofopt', slots=2, cls='gen', par=True)
def _proofopt(ctx, kids):
    ctx.open('proof-frame', WS)
    n = ctx.open('proof-begin', WS)
    ctx.w('\\begin{proof}[')
    slot(ctx, kids[0], optslot=True)
    ctx.w(']')
    ctx.gen('.', n)
    ctx.close()
    ctx.gap()
    slot(ctx, kids[1])
    ctx.gap()
    ctx.w('\\end{proof}')
    ctx.close()


@reg('theorem', slots=1, cls='gen', par=True)
def _theorem(ctx, kids):
    if not getattr(ctx, 'thm_declared', False):
        # declared where first used, re-used afterwards (repeated uses share the declaration)
        ctx.thm_declared = True
        ctx.w('\\newtheorem{thm}{Gthq}')
        ctx.gap()
    ctx.open('theorem-frame', WS)
    n = ctx.open('theorem-begin', WS)
    ctx.w('\\begin{thm}')
    ctx.gen('Gthq.', n)
    ctx.close()
    ctx.gap()
    slot(ctx, kids[0])
    ctx.gap()
    ctx.w('\\end{thm}')
    ctx.close()


@reg('theoremopt', slots=2, cls='gen', par=True)
def _theoremopt(ctx, kids):
    if not getattr(ctx, 'thm_declared', False):
        # declared where first used, re-used afterwards (repeated uses share the declaration)
        ctx.thm_declared = True
        ctx.w('\\newtheorem{thm}{Gthq}')
        ctx.gap()
    ctx.open('theorem-frame', WS)
    n = ctx.open('theorem-begin', WS)
    ctx.w('\\begin{thm}[')
    ctx.gen('Gthq', n)
    ctx.gen('(', n)
    slot(ctx, kids[0], optslot=True)
    ctx.w(']')
    ctx.gen(').', n)
    ctx.close()
    ctx.gap()
    slot(ctx, kids[1])
    ctx.gap()
    ctx.w('\\end{thm}')
    ctx.close()


@reg('inline', cls='math')
def _inline(ctx, kids):
    n = ctx.open('inline', ())
    ctx.w('$')
    ctx.hid()           # maths source must not appear
    ctx.w('_1$')
    ctx.gen(('re', INLINE_RE[ctx.lang]), n)
    ctx.close()


@reg('inlineparen', cls='math')
def _inlineparen(ctx, kids):
    n = ctx.open('inline', ())
    ctx.w('\\(')
    ctx.hid()
    ctx.w('^{2}.\\)')
    ctx.gen(('re', INLINE_RE[ctx.lang] + '\\.'), n)
    ctx.close()


@reg('display', cls='math')
def _display(ctx, kids):
    n = ctx.open('display', WS)
    ctx.w('\\begin{equation}')
    ctx.hid()
    ctx.w(' = ')
    ctx.hid()
    ctx.w('.\\end{equation}')
    ctx.gen(('re', DISPLAY_RE[ctx.lang] + '\\.'), n)
    ctx.close()


@reg('displaybr', cls='math')
def _displaybr(ctx, kids):
    n = ctx.open('display', WS)
    ctx.w('\\[')
    ctx.hid()
    ctx.w('\\]')
    ctx.gen(('re', DISPLAY_RE[ctx.lang]), n)
    ctx.close()


@reg('mathtext', slots=1, cls='math')
def _mathtext(ctx, kids):
    n = ctx.open('inline', WS)
    ctx.w('$a\\text{')
    ctx.gen(('re', INLINE_RE[ctx.lang]), n)
    slot(ctx, kids[0])
    ctx.w('}$')
    ctx.close()


@reg('mathmbox', slots=1, cls='math')
def _mathmbox(ctx, kids):
    n = ctx.open('display', WS)
    ctx.w('\\begin{equation}d \\mbox{')
    ctx.gen(('re', DISPLAY_RE[ctx.lang]), n)
    slot(ctx, kids[0])
    ctx.w('}\\end{equation}')
    ctx.close()


@reg('verb', cls='verbatim')
def _verb(ctx, kids):
    ctx.open('verb', ())
    ctx.w('\\verb|')
    ctx.word()
    ctx.copy('\\x{$')
    ctx.w('|')
    ctx.close()
    ctx.facts['markup_ok'] = True


def verb_single(name, content):
    # \verb whose content is a single character sequence with a LaTeX meaning of its own
    @reg(name, cls='verbatim')
    def f(ctx, kids):
        ctx.open('verb', ())
        ctx.w('\\verb|')
        ctx.copy(content)
        ctx.w('|')
        ctx.close()


verb_single('verbdollar', '$')
verb_single('verbbrace', '{')
verb_single('verbclose', '}')
verb_single('verbbslash', '\\\\')
verb_single('verbtilde', '~')
verb_single('verbbracket', ']')


@reg('verbplus', cls='verbatim')
def _verbplus(ctx, kids):
    ctx.open('verb', ())
    ctx.w('\\verb+')
    ctx.word()
    ctx.w('+')
    ctx.close()


@reg('verbatim', cls='verbatim', par=True)
def _verbatim(ctx, kids):
    ctx.open('verbatim', WS)
    ctx.w('\\begin{verbatim}\n')
    ctx.word()
    ctx.copy('%')
    ctx.word()
    ctx.w('\n\\end{verbatim}')
    ctx.close()


@reg('verbatimtrail', cls='verbatim', par=True)
def _verbatimtrail(ctx, kids):
    ctx.open('verbatim', WS)
    ctx.w('\\begin{verbatim}  \t\n')
    ctx.word()
    ctx.w(' \n  ')
    ctx.word()
    ctx.w('\n\\end{verbatim}')
    ctx.close()


@reg('verbatimglued', cls='verbatim', par=True)
def _verbatimglued(ctx, kids):
    ctx.open('verbatim', WS)
    ctx.w('\\begin{verbatim}')
    ctx.word()
    ctx.w('\\end{verbatim}')
    ctx.close()


def user_macro(name, nargs, definer, body, default=None, give_option=False):
    """body: list of ('g', i) i-th generated word | ('a', k) argument | ('t', text) literal generated text.
    The macro is defined where it is first used in the document and re-used afterwards
    (repeated calls of the same macro).  default: text of the default of an optional first
    parameter, which the uses always omit."""
    ng = 1 + max([p[1] for p in body if p[0] == 'g'], default=-1)
    mac = '\\m' + name.replace('_', '').replace('um', 'U')

    @reg(name, slots=nargs - (1 if default is not None and not give_option else 0), cls='user')
    def f(ctx, kids):
        if not hasattr(ctx, 'umacs'):
            ctx.umacs = {}
        if name not in ctx.umacs:
            gw = [ctx.gword() for _ in range(ng)]
            dflt = ctx.gword() if default is not None else None
            ctx.umacs[name] = (gw, dflt)
            btxt = ''
            for p in body:
                btxt += gw[p[1]] if p[0] == 'g' else '#%d' % (p[1] + 1) if p[0] == 'a' else p[1]
            if definer == 'def':
                ctx.w('\\def' + mac + ''.join('#%d' % (k + 1) for k in range(nargs)) + '{' + btxt + '}')
            else:
                ctx.w('\\' + definer + '{' + mac + '}' + ('[%d]' % nargs if nargs else '')
                      + ('[%s]' % dflt if dflt else '') + '{' + btxt + '}')
            ctx.gap()
        gw, dflt = ctx.umacs[name]
        if name == 'um_optbare' and ctx.sep == '':
            raise Invalid('control word directly followed by a letter')
        n = ctx.open(name, WS)     # body text may contain blanks
        ctx.w(mac)
        # arguments are rendered once into private flows, then placed as the body says
        argflows = []
        argdet = []
        if default is not None and not give_option:
            argflows.append([['G', dflt, n]])
            argdet.append([])
        for k in range(len(kids)):
            if give_option and k == 0:
                # the optional argument is given: document text with its own positions
                ctx.w('[')
                fl = []
                d0 = len(ctx.detached)
                ctx.stack.append(fl)
                slot(ctx, kids[k], optslot=True)
                ctx.stack.pop()
                ctx.w(']')
                argflows.append(fl)
                argdet.append(ctx.detached[d0:])
                del ctx.detached[d0:]
                continue
            ctx.w('{')
            fl = []
            d0 = len(ctx.detached)
            ctx.stack.append(fl)
            slot(ctx, kids[k])
            ctx.stack.pop()
            ctx.w('}')
            argflows.append(fl)
            # detached flows inside an argument appear once per use of it
            argdet.append(ctx.detached[d0:])
            del ctx.detached[d0:]
        if not kids and name != 'um_optbare':
            ctx.w('{}')         # um_optbare: the macro name is followed by the separator and the next word
        for p in body:
            if p[0] == 'g':
                ctx.gen(gw[p[1]], n)
            elif p[0] == 't':
                if p[1].strip():
                    ctx.gen(p[1].strip(), n)
            else:
                for sg in argflows[p[1]]:
                    ctx.seg(sg)
                ctx.detached += argdet[p[1]]
        ctx.close()


user_macro('um_wrap', 1, 'newcommand', [('g', 0), ('t', ' '), ('a', 0), ('t', ' '), ('g', 1)])
user_macro('um_twice', 1, 'newcommand', [('a', 0), ('t', '|'), ('a', 0)])
user_macro('um_swap', 2, 'newcommand', [('a', 1), ('t', '/'), ('a', 0)])
user_macro('um_const', 0, 'newcommand', [('g', 0)])
user_macro('um_def', 2, 'def', [('t', '<'), ('a', 0), ('t', '>'), ('a', 1)])
user_macro('um_drop', 2, 'renewcommand', [('a', 0)])
user_macro('um_opt', 2, 'newcommand', [('a', 0), ('t', ':'), ('a', 1), ('g', 0)], default=True)
user_macro('um_optonly', 1, 'newcommand', [('t', '('), ('a', 0), ('t', ')')], default=True)
user_macro('um_optbare', 1, 'newcommand', [('t', '('), ('a', 0), ('t', ')')], default=True)
user_macro('um_optgiven', 2, 'newcommand', [('a', 0), ('t', '+'), ('a', 1)], default=True, give_option=True)


@reg('um_remember', slots=1, cls='user')
def _um_remember(ctx, kids):
    """print-and-remember idiom: the macro copies its argument and stores it in a second macro, which is used
    afterwards.  First copy = document text with its own positions; second copy = text generated by the later call."""
    if not getattr(ctx, 'rem_declared', False):
        ctx.rem_declared = True
        ctx.w('\\newcommand{\\mUlast}{}\\newcommand{\\mUrem}[1]{#1\\renewcommand{\\mUlast}{#1}}')
        ctx.gap()
    n = ctx.open('um_remember', WS)
    a0 = ctx.w('\\mUrem{')
    fl = []
    d0 = len(ctx.detached)
    ctx.stack.append(fl)
    slot(ctx, kids[0])
    ctx.stack.pop()
    ctx.w('}')
    if '#' in ctx.src()[a0:]:
        raise Invalid('a definition with parameters inside a remembered argument (LaTeX needs ## there)')
    if ctx.detached[d0:]:
        raise Invalid('detached flow inside a remembered argument')
    for sg in fl:
        ctx.seg(sg)
    ctx.close()
    ctx.gap()
    m = ctx.open('um_last', WS)
    ctx.w('\\mUlast{}')
    for sg in fl:
        if isinstance(sg[1], str) and sg[1]:
            ctx.gen(sg[1], m)
            if WORD_RE.fullmatch(sg[1]):
                ctx.facts.setdefault('printed_again', set()).add(sg[1])
        else:
            raise Invalid('pattern-valued text inside a remembered argument')
    ctx.close()


def preamble_text(features, sedname='ymc.sed'):
    s = ''
    if 'gls' in features:
        s += '\\gls@defglossaryentry{ka}{text={gxaq},plural={gxbq},description={gxcq gxdq}}\n'
    if 'cref' in features:
        s += '\\usepackage[poorman]{cleveref}\\YYCleverefInput{%s}\n' % sedname
    return s


SED_TEXT = ('s/\\\\cref{ka}/Gyaq              Gybq/g\n'
            's/\\\\Cref{ka}/Gycq/g\n'
            's/\\\\crefrange{ka}{kb}/Gydq          Gyeq/g\n')


def gls_entry(name, macro, words):
    @reg(name, cls='gls', feature='gls')
    def f(ctx, kids):
        n = ctx.open(name, WS)
        ctx.w(macro + '{ka}')
        for w in words:
            ctx.gen(w, n)
        ctx.close()


gls_entry('gls', '\\gls', ['gxaq'])
gls_entry('Gls', '\\Gls', ['Gxaq'])
gls_entry('glspl', '\\glspl', ['gxbq'])
gls_entry('glsdesc', '\\glsdesc', ['gxcq', 'gxdq'])
gls_entry('Glsdesc', '\\Glsdesc', ['Gxcq', 'gxdq'])
gls_entry('GLS', '\\GLS', ['GXAQ'])


def cref_entry(name, src, words):
    @reg(name, cls='cref', feature='cref')
    def f(ctx, kids):
        n = ctx.open(name, WS)
        ctx.w(src)
        for w in words:
            ctx.gen(w, n)
        ctx.close()


cref_entry('cref', '\\cref{ka}', ['Gyaq', 'Gybq'])
cref_entry('Cref', '\\Cref{ka}', ['Gycq'])
cref_entry('crefrange', '\\crefrange{ka}{kb}', ['Gydq', 'Gyeq'])

ALL = list(CAT)
VERB_SINGLES = ['verbdollar', 'verbbrace', 'verbclose', 'verbbslash', 'verbtilde', 'verbbracket']

# one representative per mechanism, for the deepest level of the enumeration
CORE = ['group', 'unk1', 'unk2', 'textbf', 'framebox', 'href', 'LTalter', 'center', 'figure', 'tabular',
        'label', 'LTskip', 'comment', 'skipregion', 'lstlisting',
        'ref', 'LaTeX', 'par', 'hspace', 'phantom', 'citeopt', 'section',
        'footnote', 'captionopt', 'footcite',
        'emdash', 'quotes', 'tie', 'pct', 'dbslash', 'acute',
        'enumerate', 'itemlab', 'proofopt', 'theoremopt', 'inline', 'display', 'mathtext',
        'verb', 'verbatim', 'um_wrap', 'um_twice', 'um_def', 'um_opt', 'gls', 'cref']


# ---------------------------------------------------------------- enumeration

def forests(names, n):
    """all forests (lists of trees) with exactly n nodes"""
    if n == 0:
        yield []
        return
    for k in range(1, n + 1):
        for first in trees(names, k):
            for rest in forests(names, n - k):
                yield [first] + rest


def trees(names, k):
    for name in names:
        ns = META[name]['slots']
        if ns == 0:
            if k == 1:
                yield [name]
            continue
        for dist in distributions(k - 1, ns):
            for kids in itertools.product(*[list(forests(names, d)) for d in dist]):
                t = [name] + [list(x) for x in kids]
                while len(t) > 1 and not t[-1]:
                    t.pop()
                yield t


def distributions(total, bins):
    if bins == 1:
        yield (total,)
        return
    for first in range(total + 1):
        for rest in distributions(total - first, bins - 1):
            yield (first,) + rest


def features_of(forest):
    out = set()
    for t in forest:
        f = META[t[0]].get('feature')
        if f:
            out.add(f)
        for s in t[1:]:
            out |= features_of(s or [])
    return out


def names_in(forest):
    for t in forest:
        yield t[0]
        for s in t[1:]:
            yield from names_in(s or [])


# ---------------------------------------------------------------- rendering

class Rendered:
    pass


def render(forest, sep=' ', lang='en', sedname='ymc.sed', frame='full'):
    """raises Invalid for trees outside the generator's rules.
    frame: 'full' = word before, between and after the constructs, final newline;
    'nolead' = the document starts with the first construct; 'notrail' = it ends
    with the last construct (no final newline); 'bare' = both"""
    ctx = Ctx(sep, lang)
    feats = features_of(forest)
    ctx.w(preamble_text(feats, sedname))
    ctx.body_start = ctx.pos()
    lead = frame in ('full', 'notrail')
    trail = frame in ('full', 'nolead')
    if lead:
        ctx.word()
    for k, t in enumerate(forest):
        io = META[t[0]].get('inline_only', False)
        if lead or k:
            ctx.gap(io)
        emit(ctx, t)
        if trail or k < len(forest) - 1:
            ctx.gap(io)
            ctx.word()
    if trail:
        ctx.w('\n')
    r = Rendered()
    r.src = ctx.src()
    r.flows = ctx.flows()
    r.hidden = ctx.hidden
    r.nodes = ctx.nodes
    r.words = ctx.words
    r.features = feats
    r.nested_detached = ctx.nested_detached
    r.wsvalued = ctx.wsvalued
    r.facts = ctx.facts
    r.lang = lang
    r.body_start = ctx.body_start
    return r


def expected_words(r):
    # (a word in a generated segment: the argument text printed again by a remembering macro)
    return [s[1] for f in r.flows for s in f if s[0] in 'CG' and isinstance(s[1], str) and WORD_RE.fullmatch(s[1])]


def align(r, plain, anyspace=False):
    """walk the predicted segments through the observed text, skipping ASCII
    white space between segments (anyspace: every white-space character, also the
    values of ~ and \\,).  Returns (list of (segment, start, length), problem or None)"""
    segs = [s for f in r.flows for s in f]
    i = 0
    out = []
    if anyspace:
        plain = ''.join(' ' if ch.isspace() else ch for ch in plain)
    for s in segs:
        while i < len(plain) and plain[i] in ASCII_WS:
            i += 1
        text = s[1]
        if isinstance(text, (tuple, list)):
            m = re.compile(text[1]).match(plain, i)
            if not m:
                return out, ('TEXT', s, plain[i:i + 16])
            ln = m.end() - i
        else:
            if not text:
                continue
            if plain[i:i + len(text)] != text:
                return out, ('TEXT', s, plain[i:i + 16])
            ln = len(text)
        out.append((s, i, ln))
        i += ln
    while i < len(plain) and plain[i] in ASCII_WS:
        i += 1
    if i != len(plain):
        return out, ('EXTRA', None, plain[i:i + 20])
    return out, None


def write_aux_files(directory):
    """auxiliary files the catalogue refers to (relative names: workers chdir)"""
    import os
    with open(os.path.join(directory, 'ymc.sed'), 'w') as f:
        f.write(SED_TEXT)
    with open(os.path.join(directory, 'ymcinput.tex'), 'w') as f:
        f.write('Hzzq text of the file \\newcommand{\\unusedq}{Hzzq}\\footnote{Hzzq}\n')
    with open(os.path.join(directory, 'ymcempty.tex'), 'w') as f:
        f.write('')
