"""debug helper: python -m ymc.showreplays Cxx"""
import glob, json, sys
for f in sorted(glob.glob('/verif/replays/%s-*.json' % sys.argv[1])):
    r = json.load(open(f))
    print('==', r['signature'], 'n=%d' % r['cases_with_this_signature'], json.dumps(r['case'], ensure_ascii=False)[:300])
    d = r['detail']
    if isinstance(d, dict):
        for k, v in d.items():
            print('   %-9s %s' % (k, (repr(v) if not isinstance(v, str) else repr(v))[:600]))
    else:
        print('   ', repr(d)[:600])
