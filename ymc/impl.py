"""Adapters to the implementation under test (DESIGN 2.3).  Always the
current working tree of /repo; a fresh Parameters/Parser per call, exactly
as the CLI and the shell do."""
import io
import os
import sys

from .core import REPO, Hang

if sys.path[0] != REPO:
    sys.path.insert(0, REPO)


def assert_repo():
    import yalafi
    f = os.path.realpath(yalafi.__file__)
    if not f.startswith(os.path.realpath(REPO) + os.sep):
        raise RuntimeError('yalafi resolves to %s, not to %s' % (f, REPO))


class Obs:
    """observation of one call: kind in ok / exc / exit / hang"""
    __slots__ = ('kind', 'result', 'stderr', 'info')

    def __init__(self, kind, result, stderr, info=''):
        self.kind, self.result, self.stderr, self.info = kind, result, stderr, info


def run_filter(src, opts=None, ml=False, thresh=None):
    """tex2txt.tex2txt(src, Options(**opts)) with stderr captured"""
    from yalafi import tex2txt
    opts = dict(opts or {})
    err = io.StringIO()
    old = sys.stderr
    sys.stderr = err
    try:
        o = tex2txt.Options(**opts)
        mod = None
        if thresh is not None:
            def mod(p):
                p.ml_continue_thresh = thresh
        if ml:
            r = tex2txt.tex2txt(src, o, multi_language=True, modify_parms=mod)
        else:
            r = tex2txt.tex2txt(src, o)
        return Obs('ok', r, err.getvalue())
    except Hang:
        return Obs('hang', None, err.getvalue(), 'watchdog')
    except SystemExit as e:
        return Obs('exit', None, err.getvalue(), 'SystemExit(%r)' % (e.code,))
    except RecursionError as e:
        return Obs('exc', None, err.getvalue(), 'RecursionError')
    except BaseException as e:
        import traceback
        tb = traceback.extract_tb(e.__traceback__)
        where = '%s:%s' % (os.path.basename(tb[-1].filename), tb[-1].name) if tb else '?'
        return Obs('exc', None, err.getvalue(), '%s at %s: %s' % (type(e).__name__, where, str(e)[:120]))
    finally:
        sys.stderr = old
