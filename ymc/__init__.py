"""ymc - bounded exhaustive exploration of YaLafi against reference models."""
