import importlib

IDS = ['C%02d' % i for i in range(1, 21)]


def load(check_id):
    mod = importlib.import_module('ymc.checks.' + check_id.lower())
    return mod.CHECK
