"""Shared driver for the checks that enumerate catalogue documents
(C02, C03, C04 and parts of C01, C07, C08)."""
import os

from . import catalogue as cat
from . import core, impl

LAYOUTS = [' ', '\n', '']


def init_worker():
    d = core.scratch_dir()
    cat.write_aux_files(d)
    os.chdir(d)


def enum_docs(tier, layouts_q=(' ', '\n', ''), layouts_t=(' ', '\n')):
    """quick: all forests with n <= 2 over the whole catalogue, three layouts,
    n = 3 over a small core in one layout; thorough: n <= 3 over the core
    catalogue (plus n <= 2 over everything)"""
    names = cat.ALL
    if tier == 'quick':
        core = set(cat.CORE)
        for n in (1, 2):
            for f in cat.forests(names, n):
                for sep in layouts_q:
                    if n == 2 and sep == '' and not all(x in core for x in cat.names_in(f)):
                        continue        # glued layout for pairs: core catalogue only (all pairs in the thorough tier)
                    yield f, sep
    else:
        for n in (1, 2):
            for f in cat.forests(names, n):
                for sep in LAYOUTS:
                    yield f, sep
        for f in cat.forests(cat.CORE, 3):
            yield f, ' '


def langs_for(forest):
    names = set(cat.names_in(forest))
    if any(cat.META[n].get('lang') for n in names):
        return ['de']
    return ['en']


def bounds(tier):
    return {'catalogue_entries': len(cat.ALL), 'core_entries': len(cat.CORE),
            'max_nodes_full_catalogue': 2, 'max_nodes_core': 3 if tier == 'thorough' else 2,
            'layouts': ['blank', 'newline', 'glued'], 'frames': ['word before and after', 'construct first in text', 'construct last in text (no final newline)', 'both'],
            'configs': ['pack=* lang=en', 'pack=* lang=de (documents with German shorthands; every 5th other document)']}


def cases(tier, seed):
    k = 0
    for f, sep in enum_docs(tier):
        for lang in langs_for(f):
            yield [f, sep, lang]
        k += 1
        if k % 5 == 0 and langs_for(f) == ['en']:
            yield [f, sep, 'de']
    # the construct as very first / very last token of the text
    for n in (1, 2):
        for f in cat.forests(cat.ALL if n == 1 or tier != 'quick' else cat.CORE, n):
            if len(f) != n:
                continue        # sequences only: nesting does not change what is first / last
            for frame in ('nolead', 'notrail', 'bare'):
                for sep in (' ', '\n'):
                    yield [f, sep, langs_for(f)[0], frame]


def run_case(case):
    """returns (rendered or None, obs or None, skip reason)"""
    forest, sep, lang = case[:3]
    frame = case[3] if len(case) > 3 else 'full'
    try:
        r = cat.render(forest, sep, lang, frame=frame)
    except cat.Invalid as e:
        return None, None, e.args[0]
    o = impl.run_filter(r.src, {'pack': '*', 'lang': lang})
    return r, o, None


def construct_path(r, node):
    """names from the outermost construct to this node: a violation signature
    names the construct, never the whole input"""
    p = []
    while node is not None:
        p.append(r.nodes[node]['name'])
        node = r.nodes[node]['parent']
    return '>'.join(reversed(p))


def innermost(r, off):
    """innermost catalogue node whose span contains source offset off"""
    best = None
    for i, nd in enumerate(r.nodes):
        if nd['a'] <= off < nd['b']:
            if best is None or nd['a'] >= r.nodes[best]['a']:
                best = i
    return best


def explain(case):
    forest, sep, lang = case[:3]
    frame = case[3] if len(case) > 3 else 'full'
    try:
        r = cat.render(forest, sep, lang, frame=frame)
    except cat.Invalid as e:
        return 'invalid tree: %s' % e.args[0]
    o = impl.run_filter(r.src, {'pack': '*', 'lang': lang})
    s = 'tree   %r layout=%r lang=%s\nsource %r\n' % (forest, sep, lang, r.src)
    if o.kind == 'ok':
        s += 'plain  %r\nmap    %r\n' % (o.result[0], list(o.result[1]))
    else:
        s += 'result %s %s\n' % (o.kind, o.info)
    s += 'stderr %r\nmodel flows:\n' % o.stderr
    for f in r.flows:
        s += '   %r\n' % (f,)
    return s
