import argparse
import json
import os
import sys

from . import core, registry


def main():
    ap = argparse.ArgumentParser(prog='ymc')
    sub = ap.add_subparsers(dest='cmd', required=True)
    r = sub.add_parser('run')
    r.add_argument('check')
    r.add_argument('--tier', default=os.environ.get('VERIF_TIER') or 'quick', choices=['quick', 'thorough'])
    p = sub.add_parser('replay')
    p.add_argument('path')
    p.add_argument('--quiet', action='store_true')
    sub.add_parser('selftest')
    a = ap.parse_args()
    seed = int(os.environ.get('VERIF_SEED') or 0)
    if a.cmd == 'selftest':
        from . import impl
        impl.assert_repo()
        os.makedirs(os.path.join(core.VERIF, 'evidence'), exist_ok=True)
        for i in registry.IDS:
            try:
                registry.load(i)
            except ModuleNotFoundError:
                pass
        print('ymc selftest ok: python %s, yalafi from %s' % (sys.version.split()[0], core.REPO))
        return 0
    if a.cmd == 'run':
        check = registry.load(a.check)
        try:
            return core.run_check(check, a.tier, seed)
        except core.HarnessError as e:
            sys.stderr.write('HARNESS ERROR (%s): %s\n' % (a.check, e))
            return 2
    if a.cmd == 'replay':
        with open(a.path) as f:
            rec = json.load(f)
        check = registry.load(rec['property'])
        import signal
        signal.signal(signal.SIGALRM, core._alarm)
        if hasattr(check, 'init_worker'):
            check.init_worker()
        if rec.get('conformance'):
            # a violation of an end-to-end conformance step (real CLI / real server) is replayed by that step
            n, vs = check.conformance_one(rec['case'])
            v = {'viol': vs}
        else:
            v = core.judge_one(check, rec['case'])
        if v.get('harness'):
            sys.stderr.write(v['harness'])
            return 2
        hit = [x for x in v.get('viol', []) if x['sig'] == rec.get('signature')] or v.get('viol', [])
        if not a.quiet:
            if hasattr(check, 'explain') and not rec.get('conformance'):
                print(check.explain(rec['case']))
            for x in hit:
                print('clause: %s\nsignature: %s\ndetail: %s' % (x['clause'], x['sig'], json.dumps(x.get('detail'), ensure_ascii=False, default=repr)))
        if hit:
            print('VIOLATION property=%s replay=%s' % (rec['property'], a.path))
            return 1
        if not a.quiet:
            print('no violation: property %s holds on this case' % rec['property'])
        return 0


if __name__ == '__main__':
    import shutil
    try:
        rc = main()
    finally:
        root = os.environ.get('YMC_SCRATCH')
        if root and os.path.isdir(root) and os.path.basename(root).startswith('ymc-'):
            shutil.rmtree(root, ignore_errors=True)
    sys.exit(rc)
