"""Drivers for yalafi.shell (DESIGN 2.4).

In-process driver: the real top-level code of yalafi/shell/shell.py is run
with `--as-server`, `server.run_server` replaced by a function that captures
the module globals; the proofreader process is replaced at
`proofreader.subprocess.run` by a function returning the harness-chosen
answer bytes.  CLI driver: `python -m yalafi.shell --lt-command <fake>`.
The two are bound by byte-identical conformance replays."""
import hashlib
import io
import json
import os
import runpy
import subprocess
import sys
import types

from . import core, impl  # noqa: F401


class ShellExit(Exception):
    def __init__(self, code, stderr):
        self.code, self.stderr = code, stderr


class Session:
    """one initialised shell (in process)"""

    def __init__(self, argv, answer, cwd=None):
        """argv: options and file names as on the command line (without --lt-command);
        answer: function (plain_text, lt_cmd) -> bytes"""
        import yalafi.shell.server as server
        self.answer = answer
        self.calls = []         # (lt_cmd, plain_text)
        self.argv = list(argv)
        cap = {}

        def fake_run_server(addr, port, fn, option_map, lt_options):
            cap['globals'] = sys._getframe(1).f_globals
            cap['lt_options'] = lt_options
            cap['port'] = port
            cap['server_args'] = (fn, option_map, lt_options)

        old_argv, old_run, old_err = sys.argv, server.run_server, sys.stderr
        sys.argv = ['yalafi.shell', '--no-config', '--lt-command', 'FAKELT'] + self.argv + ['--as-server', '1']
        server.run_server = fake_run_server
        err = io.StringIO()
        sys.stderr = err
        old_cwd = os.getcwd()
        if cwd:
            os.chdir(cwd)
        try:
            try:
                runpy.run_module('yalafi.shell.shell', run_name='yalafi.shell.shell')
            except SystemExit as e:
                if 'globals' not in cap:
                    raise ShellExit(e.code, err.getvalue())
        finally:
            sys.argv, server.run_server, sys.stderr = old_argv, old_run, old_err
            os.chdir(old_cwd)
        self.startup_stderr = err.getvalue()
        self.g = cap['globals']
        self.lt_options = cap['lt_options']
        self.cmdline = self.g['cmdline']
        self.proofreader = self.g['proofreader']
        self.vars = self.g['vars']
        self.cwd = cwd
        # the server object lives as long as the session, as in a real --as-server process: it is built by the real
        # Server.__init__ from the arguments shell.py passed to run_server, only the socket set-up is left out
        import socketserver
        fn, option_map, lt_options = cap['server_args']
        old_init = socketserver.TCPServer.__init__
        socketserver.TCPServer.__init__ = lambda self_, *a, **k: None
        try:
            self.httpd = server.Server(('localhost', cap['port']), server.Handler, fn, option_map, lt_options)
        finally:
            socketserver.TCPServer.__init__ = old_init

        sess = self

        def fake_run(cmd, cwd=None, input=None, stdout=None, **kw):
            txt = input.decode('utf-8')
            sess.calls.append((list(cmd), txt))
            return types.SimpleNamespace(stdout=sess.answer(txt, list(cmd)), returncode=0)
        self.fake_subprocess = types.SimpleNamespace(run=fake_run, PIPE=subprocess.PIPE, Popen=subprocess.Popen,
                                                     DEVNULL=subprocess.DEVNULL)

    def _guarded(self, fn):
        """run fn with the proofreader seam installed; returns (value, stderr, exit code or None, exception info)"""
        pr = self.proofreader
        old_sp, old_err, old_cwd = pr.subprocess, sys.stderr, os.getcwd()
        pr.subprocess = self.fake_subprocess
        err = io.StringIO()
        sys.stderr = err
        if self.cwd:
            os.chdir(self.cwd)
        try:
            try:
                return fn(), err.getvalue(), None, None
            except SystemExit as e:
                return None, err.getvalue(), e.code if e.code is not None else 0, None
            except core.Hang:
                raise
            except BaseException as e:
                import traceback
                tb = traceback.extract_tb(e.__traceback__)
                where = '%s:%s' % (os.path.basename(tb[-1].filename), tb[-1].name) if tb else '?'
                return None, err.getvalue(), None, '%s at %s: %s' % (type(e).__name__, where, str(e)[:100])
        finally:
            pr.subprocess, sys.stderr = old_sp, old_err
            os.chdir(old_cwd)

    def report(self):
        """what `python -m yalafi.shell <argv>` writes to stdout, by the same dispatch as the
        tail of shell.py -> (stdout text, stderr, exit code or None, exception info)"""
        c = self.cmdline
        g = self.g
        out = io.StringIO()

        def run():
            if c.output == 'plain' or c.list_unknown:
                from yalafi.shell import gentext
                gentext.init(self.vars)
                gentext.generate_text_report(self.proofreader.run_proofreader, out)
            elif c.output in ('xml', 'xml-b'):
                from yalafi.shell import genxml
                genxml.init(self.vars)
                genxml.generate_xml_report(self.proofreader.run_proofreader, out, c.output == 'xml-b')
            elif c.output == 'html':
                from yalafi.shell import genhtml
                genhtml.init(self.vars)
                genhtml.generate_html_report(self.proofreader.run_proofreader, out)
            elif c.output == 'json':
                from yalafi.shell import genjson
                genjson.generate_json_report(c, self.proofreader.run_proofreader, g['json_get'], out)
            return out.getvalue()
        val, err, code, exc = self._guarded(run)
        return (val if val is not None else out.getvalue()), err, code, exc

    def request(self, requ):
        """server emulation: Handler.create_message for one request (dict of lists as parse_qs gives)"""
        from yalafi.shell import server
        stub = types.SimpleNamespace(server=self.httpd)
        return self._guarded(lambda: server.Handler.create_message(stub, requ))


# ---------------------------------------------------------------- CLI driver

FAKE_LT = '''#!/bin/sh
d=$(dirname "$0")
cat > "$d/in.$$"
h=$(sha1sum < "$d/in.$$" | cut -c1-16)
echo "$*" >> "$d/args.log"
rm -f "$d/in.$$"
if [ -f "$d/ans.$h" ]; then cat "$d/ans.$h"; else cat "$d/ans.default"; fi
'''


def sha16(text):
    return hashlib.sha1(text.encode('utf-8')).hexdigest()[:16]


def run_cli(argv, files, answers, default_answer, cwd, timeout=300, extra_env=None):
    """files: {name: text or bytes}; answers: {plain_text: bytes}; returns (rc, stdout bytes, stderr text, lt arg lines)"""
    os.makedirs(cwd, exist_ok=True)
    for old in os.listdir(cwd):
        if old.startswith('ans.') or old == 'args.log':
            os.unlink(os.path.join(cwd, old))
    for name, text in files.items():
        p = os.path.join(cwd, name)
        os.makedirs(os.path.dirname(p), exist_ok=True)
        with open(p, 'wb') as f:
            f.write(text if isinstance(text, bytes) else text.encode('utf-8'))
    lt = os.path.join(cwd, 'fakelt.sh')
    with open(lt, 'w') as f:
        f.write(FAKE_LT)
    os.chmod(lt, 0o755)
    for plain, ans in answers.items():
        with open(os.path.join(cwd, 'ans.' + sha16(plain)), 'wb') as f:
            f.write(ans)
    with open(os.path.join(cwd, 'ans.default'), 'wb') as f:
        f.write(default_answer)
    env = dict(os.environ, PYTHONPATH=core.REPO, PYTHONIOENCODING='utf-8')
    if extra_env:
        env.update(extra_env)
    p = subprocess.run([sys.executable, '-m', 'yalafi.shell', '--no-config', '--lt-command', lt] + list(argv),
                       cwd=cwd, stdout=subprocess.PIPE, stderr=subprocess.PIPE, env=env, timeout=timeout)
    args = []
    try:
        with open(os.path.join(cwd, 'args.log')) as f:
            args = f.read().splitlines()
    except OSError:
        pass
    return p.returncode, p.stdout, p.stderr.decode('utf-8', 'replace'), args


# ---------------------------------------------------------------- LanguageTool-like answers

def lt_context(text, offset, length, size=40):
    """context excerpt as LanguageTool builds it: line breaks and tabs blanked, '...' at cut ends"""
    beg = max(0, offset - size)
    end = min(len(text), offset + length + size)
    s = text[beg:end].replace('\n', ' ').replace('\t', ' ')
    pre = '...' if beg > 0 else ''
    post = '...' if end < len(text) else ''
    return {'text': pre + s + post, 'offset': offset - beg + len(pre), 'length': length}


def lt_match(text, offset, length, message='msg', rule='RULE_ID', repl=('sugg',), category='Typo', **extra):
    m = {'message': message, 'shortMessage': '', 'replacements': [{'value': r} for r in repl],
         'offset': offset, 'length': length, 'context': lt_context(text, offset, length), 'sentence': '',
         'type': {'typeName': 'Other'},
         'rule': {'id': rule, 'description': 'd', 'issueType': 'misspelling', 'category': {'id': 'TYPOS', 'name': category}},
         'ignoreForIncompleteSentence': False, 'contextForSureMatch': 0}
    m.update(extra)
    return m


def lt_answer(matches):
    return json.dumps({'software': {'name': 'LanguageTool', 'version': '4.7'}, 'warnings': {'incompleteResults': False},
                       'language': {'name': 'English (GB)', 'code': 'en-GB'}, 'matches': matches},
                      ensure_ascii=False).encode('utf-8')
