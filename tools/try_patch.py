#!/venv/bin/python
"""apply a patch to /repo, run the quick (or given tier) checks named, always restore /repo.
usage: try_patch.py <patch> [--tier quick] [--suite] C02 C03 ..."""
import subprocess, sys, os, re
args = sys.argv[1:]
patch = args.pop(0)
tier = 'quick'
suite = False
if '--tier' in args:
    i = args.index('--tier'); tier = args[i + 1]; del args[i:i + 2]
if '--suite' in args:
    args.remove('--suite'); suite = True
st = subprocess.run(['git', '-C', '/repo', 'status', '--porcelain', '--untracked-files=no'], capture_output=True, text=True).stdout
if st.strip():
    sys.exit('refusing: /repo working tree is not clean:\n' + st)
r = subprocess.run(['git', '-C', '/repo', 'apply', patch])
if r.returncode:
    sys.exit('patch does not apply')
res = {}
try:
    if suite:
        t = subprocess.run('cd /repo && flock /tmp/yalafi-tests.lock /venv/bin/python -m pytest -q -p no:cacheprovider --timeout=900 2>&1 | tail -1',
                           shell=True, capture_output=True, text=True).stdout.strip()
        print('suite:', t)
    for c in args:
        p = subprocess.run(['/venv/bin/python', '-m', 'ymc', 'run', c, '--tier', tier], cwd='/verif', capture_output=True, text=True,
                           env=dict(os.environ, VERIF_SEED=os.environ.get('VERIF_SEED', '0')))
        sigs = []
        for m in re.finditer(r'VIOLATION property=\S+ replay=(\S+)', p.stdout):
            try:
                import json
                sigs.append(json.load(open(m.group(1)))['signature'])
            except Exception:
                pass
        last = p.stdout.strip().splitlines()[-1] if p.stdout.strip() else p.stderr.strip()[-300:]
        print('%s rc=%d %s\n     sigs=%s' % (c, p.returncode, last, sigs[:6]))
        res[c] = p.returncode
finally:
    subprocess.run(['git', '-C', '/repo', 'checkout', '--', '.'])
