"""what a seeded change needs in order to manifest: taken from the author's notes.md (section on what is
needed / trigger), for reverted fixes from known_findings.json.  Used by seed_install.py; run as a program
to fill the field in every /verif/seeded/*/meta.json."""
import json
import os
import re
import sys

VERIF = os.path.dirname(os.path.dirname(os.path.abspath(__file__)))
HEAD = re.compile(r'^(#+ .*|\*\*[^*]*\*\*:?)\s*$')
KEY = re.compile(r'need|manifest|trigger|require|condition', re.I)


def from_notes(path):
    try:
        lines = open(path, encoding='utf-8', errors='replace').read().splitlines()
    except OSError:
        return None
    out = []
    take = False
    for ln in lines:
        if HEAD.match(ln.strip()):
            if take and any(x.strip() for x in out):
                break
            take = bool(KEY.search(ln))
            continue
        if take:
            out.append(ln)
    if not out:
        # inline sentence
        for i, ln in enumerate(lines):
            if KEY.search(ln):
                out = lines[i:i + 8]
                break
    txt = ' '.join(s.strip() for s in out if s.strip())
    txt = re.sub(r'\s+', ' ', txt).strip()
    return txt[:900] or None


def needs(seed_id, srcdir):
    if seed_id.startswith('fixrev-'):
        k = json.load(open(os.path.join(VERIF, 'known_findings.json')))
        com = seed_id.split('-', 1)[1]
        for f in k['findings']:
            if f.get('commit', '').startswith(com) or com.startswith(f.get('commit', 'zz')):
                return 'reverts repair %s; the input of the repaired defect: %s' % (f['commit'], f['what'].split(' ', 3)[-1])
    return from_notes(os.path.join(srcdir, 'notes.md'))


if __name__ == '__main__':
    sd = os.path.join(VERIF, 'seeded')
    miss = []
    for d in sorted(os.listdir(sd)):
        mp = os.path.join(sd, d, 'meta.json')
        if not os.path.exists(mp):
            continue
        m = json.load(open(mp))
        m['what_it_needs'] = needs(d, os.path.join(sd, d))
        if not m['what_it_needs']:
            miss.append(d)
        json.dump(m, open(mp, 'w'), indent=1)
    print('filled; missing:', miss)
