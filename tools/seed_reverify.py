#!/venv/bin/python
"""Re-confirm every seeded change against the current head of /repo (rebase by 3-way apply, suite, demo, quick checks).
Entries whose meta.json already names the current head are skipped.  usage: seed_reverify.py [id-prefix ...]"""
import glob, json, os, subprocess, sys
head = subprocess.run('git -C /repo rev-parse --short HEAD', shell=True, capture_output=True, text=True).stdout.strip()
sel = sys.argv[1:]
for d in sorted(glob.glob('/verif/seeded/*/')):
    sid = os.path.basename(d.rstrip('/'))
    if sel and not any(sid.startswith(x) for x in sel):
        continue
    mf = os.path.join(d, 'meta.json')
    m = json.load(open(mf)) if os.path.exists(mf) else {}
    if m.get('repo_head') == head and m.get('confirmed'):
        print(sid, 'up to date'); continue
    checks = list(m.get('checks', {})) or [m.get('property')]
    r = subprocess.run(['/verif/tools/seed_install.py', d, sid, m['property']] + checks, capture_output=True, text=True)
    print((r.stdout.strip().splitlines() or [r.stderr[-200:]])[-1][:300], flush=True)
print('REVERIFY DONE')
