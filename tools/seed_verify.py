#!/venv/bin/python
"""Confirm a seeded change myself in a scratch worktree: patch applies, suite passes with it,
demo fails with it and passes without it.  usage: seed_verify.py <dir with patch.diff demo.py> [<worktree>]"""
import subprocess, sys, os, json
d = os.path.abspath(sys.argv[1])
wt = sys.argv[2] if len(sys.argv) > 2 else '/tmp/wt/mine'
def sh(cmd, **kw):
    return subprocess.run(cmd, shell=True, capture_output=True, text=True, **kw)
sh('git -C %s checkout -- . && git -C %s clean -fdq' % (wt, wt))
head = sh('git -C /repo rev-parse HEAD').stdout.strip()
sh('git -C %s checkout -q --detach %s' % (wt, head))
res = {'dir': d, 'repo_head': head}
env = dict(os.environ, PYTHONPATH=wt)
r = sh('/venv/bin/python %s/demo.py %s' % (d, wt), cwd=wt, env=env); res['demo_clean_rc'] = r.returncode
a = sh('git -C %s apply %s/patch.diff' % (wt, d)); res['applies'] = a.returncode == 0
if res['applies']:
    r = sh('/venv/bin/python %s/demo.py %s' % (d, wt), cwd=wt, env=env); res['demo_patched_rc'] = r.returncode
    res['demo_patched_out'] = (r.stdout + r.stderr)[-400:]
    t = sh('flock /tmp/yalafi-tests.lock /venv/bin/python -m pytest -q -p no:cacheprovider --timeout=900 2>&1 | tail -1', cwd=wt, env=env)
    res['suite'] = t.stdout.strip()
    sh('git -C %s checkout -- . && git -C %s clean -fdq' % (wt, wt))
else:
    res['apply_err'] = a.stderr[-300:]
res['confirmed'] = bool(res.get('applies') and res.get('demo_clean_rc') == 0 and res.get('demo_patched_rc') not in (0, None) and '454 passed' in res.get('suite', ''))
print(json.dumps(res, indent=1))
