#!/venv/bin/python
"""Install a confirmed seeded change under /verif/seeded/<id>/ and record what detects it.
usage: seed_install.py <srcdir> <id> <property> <check> [<check> ...]
Steps (all against the CURRENT head of /repo): rebase the patch with a 3-way apply in a scratch worktree,
run the unedited test suite with it, run the demo with and without it, then apply it to /repo, run the
quick checks named, and restore /repo."""
import json, os, re, shutil, subprocess, sys, time
src, sid, prop = sys.argv[1:4]
checks = sys.argv[4:]
wt = '/tmp/wt/mine'
dst = '/verif/seeded/' + sid
def sh(cmd, **kw):
    return subprocess.run(cmd, shell=True, capture_output=True, text=True, **kw)
head = sh('git -C /repo rev-parse --short HEAD').stdout.strip()
if not os.path.isdir(wt):
    sh('git -C /repo worktree add --detach %s' % wt)      # scratch worktree; remove it afterwards (git -C /repo worktree remove --force)
sh('git -C %s reset -q --hard && git -C %s clean -fdq && git -C %s checkout -q --detach %s' % (wt, wt, wt, head))
patch = os.path.join(src, 'patch.diff')
a = sh('git -C %s apply --3way %s' % (wt, patch))
meta = {'id': sid, 'property': prop, 'repo_head': head, 'source': 'sub-agent given only the property text and a scratch worktree' if 'fixrev' not in src else 'reverse of a fix: commit'}
if a.returncode:
    print(json.dumps(dict(meta, error='patch does not apply: ' + a.stderr[-300:]))); sys.exit(1)
os.makedirs(dst, exist_ok=True)
diff = subprocess.run('git -C %s diff HEAD' % wt, shell=True, capture_output=True).stdout
open(os.path.join(dst, 'patch.diff'), 'wb').write(diff)
for f in ('demo.py', 'notes.md'):
    if os.path.exists(os.path.join(src, f)) and os.path.abspath(src) != os.path.abspath(dst):
        shutil.copy(os.path.join(src, f), os.path.join(dst, f))
env = dict(os.environ, PYTHONPATH=wt)
demo = os.path.join(dst, 'demo.py')
if os.path.exists(demo):
    r = sh('/venv/bin/python %s %s' % (demo, wt), cwd=wt, env=env); meta['demo_with_change_rc'] = r.returncode
    meta['demo_with_change_output'] = (r.stdout + r.stderr)[-600:]
t = sh('flock /tmp/yalafi-tests.lock /venv/bin/python -m pytest -q -p no:cacheprovider --timeout=900 2>&1 | tail -1', cwd=wt, env=env)
meta['suite_with_change'] = t.stdout.strip()
sh('git -C %s reset -q --hard && git -C %s clean -fdq' % (wt, wt))
if os.path.exists(demo):
    r = sh('/venv/bin/python %s %s' % (demo, wt), cwd=wt, env=env); meta['demo_without_change_rc'] = r.returncode
meta['confirmed'] = '454 passed' in meta['suite_with_change'] and (not os.path.exists(demo) or (meta['demo_with_change_rc'] != 0 and meta['demo_without_change_rc'] == 0))
# my checks
st = sh('git -C /repo status --porcelain --untracked-files=no').stdout
if st.strip():
    print('refusing: /repo not clean'); sys.exit(2)
meta['checks'] = {}
r = sh('git -C /repo apply %s' % os.path.join(dst, 'patch.diff'))
try:
    if r.returncode:
        meta['error'] = 'rebased patch does not apply to /repo'
    else:
        for c in checks:
            t0 = time.time()
            p = sh('/venv/bin/python -m ymc run %s --tier quick' % c, cwd='/verif')
            sigs = []
            for m in re.finditer(r'VIOLATION property=\S+ replay=(\S+)', p.stdout):
                try: sigs.append(json.load(open(m.group(1)))['signature'])
                except Exception: pass
            meta['checks'][c] = {'rc': p.returncode, 'detected': p.returncode == 1, 'signatures': sigs[:8], 'wall_s': round(time.time() - t0, 1),
                                 'summary': (p.stdout.strip().splitlines() or [p.stderr[-200:]])[-1]}
finally:
    sh('git -C /repo checkout -- .')
sys.path.insert(0, os.path.dirname(os.path.abspath(__file__)))
import seed_needs  # noqa: E402
meta['what_it_needs'] = seed_needs.needs(sid, dst)
meta['ran'] = ['git apply --3way patch.diff (scratch worktree at %s)' % head, 'pytest (454 tests) with the change', 'demo.py with and without the change',
               'git -C /repo apply patch.diff; ' + '; '.join('python -m ymc run %s --tier quick' % c for c in checks) + '; git -C /repo checkout -- .']
json.dump(meta, open(os.path.join(dst, 'meta.json'), 'w'), indent=1)
print(sid, 'confirmed' if meta['confirmed'] else 'NOT-CONFIRMED', {c: v['detected'] for c, v in meta['checks'].items()})
